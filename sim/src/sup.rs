//! Supervisor / worker processes, replay, evidence.
use crate::exec::{Stats, Violation};
use crate::gen::{self, Tier};
use crate::runner::run_case;
use crate::shrink::shrink;
use crate::trace::Trace;
use serde_json::{json, Value};
use std::collections::{BTreeMap, BTreeSet};
use std::io::Write;
use std::time::Instant;

fn arg<'a>(args: &'a [String], name: &str) -> Option<&'a str> {
    args.iter().position(|a| a == name).and_then(|i| args.get(i + 1)).map(|s| s.as_str())
}
fn arg_u64(args: &[String], name: &str) -> Option<u64> {
    arg(args, name).and_then(|s| s.parse().ok())
}
fn tier_of(args: &[String]) -> Tier {
    match arg(args, "--tier").or(std::env::var("VERIF_TIER").ok().as_deref()) {
        Some("thorough") => Tier::Thorough,
        _ => Tier::Quick,
    }
}
fn tier_name(t: Tier) -> &'static str {
    match t {
        Tier::Quick => "quick",
        Tier::Thorough => "thorough",
    }
}

/// number of generated histories per (property, tier)
fn default_runs(prop: &str, tier: Tier) -> u64 {
    let q = match prop {
        "C18" => 20_000,
        "C01" | "C02" => 600_000,
        "C13" | "C17" => 700_000,
        "C03" | "C04" | "C05" | "C12" | "C16" => 1_000_000,
        _ => 1_200_000,
    };
    match tier {
        Tier::Quick => q,
        Tier::Thorough => q * 5,
    }
}

pub fn main(args: &[String]) -> i32 {
    match args.get(1).map(|s| s.as_str()) {
        Some("worker") => worker(args),
        Some("check") => check(args),
        Some("replay") => replay(args),
        Some("replay-inner") => replay_inner(args),
        Some("digest") => digest(args),
        Some("show") => show(args),
        Some("slice") => slice(args),
        Some("distill") => distill(args),
        Some("emit") => emit(args),
        _ => {
            eprintln!("usage: cachesim check|worker|replay|digest|show ...");
            2
        }
    }
}

/// `cachesim slice --prop P --from A --to B`: in-process execution of a slice of runs without any
/// child process or file output — the entry point used under Miri and AddressSanitizer, which act
/// as alternative deterministic executors of the same seeds. Prints "RUN <i>" before each run so
/// that an abort of the tool can be pinned to a run index.
fn slice(args: &[String]) -> i32 {
    let prop = arg(args, "--prop").unwrap_or("C03");
    let seed = arg_u64(args, "--seed").unwrap_or(1);
    let from = arg_u64(args, "--from").unwrap_or(0);
    let to = arg_u64(args, "--to").unwrap_or(10);
    let max_events = arg_u64(args, "--max-events").unwrap_or(u64::MAX) as usize;
    let tier = tier_of(args);
    let mut bad = 0;
    let mut execs = 0u64;
    let indices: Vec<u64> = match arg(args, "--indices") {
        Some(s) => s.split(',').filter_map(|x| x.trim().parse().ok()).collect(),
        None => (from..to).collect(),
    };
    for i in indices {
        let mut t = gen::gen(prop, seed, i, tier);
        t.events.truncate(max_events);
        eprintln!("RUN {}", i);
        let r = run_case(&t);
        execs += r.executions;
        for (v, _) in &r.violations {
            if v.prop == prop {
                println!("SLICE-VIOLATION run={} property={} oracle={} step={} op={} :: {}", i, v.prop, v.oracle, v.step, v.op, v.detail);
                bad += 1;
            }
        }
    }
    println!("SLICE-DONE prop={} from={} to={} executions={} violations={}", prop, from, to, execs, bad);
    if bad > 0 {
        1
    } else {
        0
    }
}

/// `cachesim distill --prop P --from A --to B --max M`: native pre-pass that picks the run indices
/// which reach a probe / model branch / fault site no earlier pick reached (greedy), so that the
/// slow executors (Miri) spend their budget on runs that cover every reached branch at least once.
fn distill(args: &[String]) -> i32 {
    let prop = arg(args, "--prop").unwrap_or("C03");
    let seed = arg_u64(args, "--seed").unwrap_or(1);
    let from = arg_u64(args, "--from").unwrap_or(0);
    let to = arg_u64(args, "--to").unwrap_or(20000);
    let max = arg_u64(args, "--max").unwrap_or(256) as usize;
    let max_events = arg_u64(args, "--max-events").unwrap_or(40) as usize;
    let tier = tier_of(args);
    let mut seen: BTreeSet<String> = BTreeSet::new();
    let mut picked: Vec<u64> = Vec::new();
    for i in from..to {
        if picked.len() >= max {
            break;
        }
        let mut t = gen::gen(prop, seed, i, tier);
        if t.events.len() > max_events || t.events.iter().any(|e| e.op.code == crate::ops::Code::Fill) {
            // (macro events make thousands of calls: too slow for an interpreter)
            continue;
        }
        t.faults.clear();
        let mut tt = t.clone();
        tt.prop = if prop == "C18" { "C03".into() } else { tt.prop };
        let r = run_case(&tt);
        let mut new = false;
        for k in r.stats.counters.keys() {
            let key = format!("{}|{}", t.header.kind.name(), k);
            if !seen.contains(&key) {
                seen.insert(key);
                new = true;
            }
        }
        if new {
            picked.push(i);
        }
    }
    println!("{}", picked.iter().map(|x| x.to_string()).collect::<Vec<_>>().join(","));
    eprintln!("distilled {} runs covering {} (subject, probe) pairs", picked.len(), seen.len());
    0
}

/// `cachesim emit --prop P --index I --executor miri --out FILE`: writes the replay file of a run
fn emit(args: &[String]) -> i32 {
    let prop = arg(args, "--prop").unwrap_or("C03");
    let seed = arg_u64(args, "--seed").unwrap_or(1);
    let idx = arg_u64(args, "--index").unwrap_or(0);
    let max_events = arg_u64(args, "--max-events").unwrap_or(u64::MAX) as usize;
    let mut t = gen::gen(prop, seed, idx, tier_of(args));
    t.events.truncate(max_events);
    let mut v = t.to_json();
    v["expect"] = json!({
        "property": prop, "oracle": arg(args, "--oracle").unwrap_or("executor_abort"), "op": "?", "step": -1,
        "class": "crash", "executor": arg(args, "--executor").unwrap_or("native"),
        "detail": arg(args, "--detail").unwrap_or(""), "orig_run_index": idx, "orig_events": t.events.len(),
    });
    match arg(args, "--out") {
        Some(p) => {
            if std::fs::write(p, serde_json::to_string_pretty(&v).unwrap()).is_err() {
                return 2;
            }
        }
        None => println!("{}", serde_json::to_string_pretty(&v).unwrap()),
    }
    0
}

fn show(args: &[String]) -> i32 {
    let prop = arg(args, "--prop").unwrap_or("C06");
    let seed = arg_u64(args, "--seed").unwrap_or(1);
    let idx = arg_u64(args, "--index").unwrap_or(0);
    let t = gen::gen(prop, seed, idx, tier_of(args));
    println!("{}", serde_json::to_string_pretty(&t.to_json()).unwrap());
    let r = run_case(&t);
    for (v, _) in &r.violations {
        println!("violation {} {} step {} op {}: {}", v.prop, v.oracle, v.step, v.op, v.detail);
    }
    println!("executions {} events {}", r.executions, r.events);
    0
}

/// determinism proof: digest of every per-event log line of a slice of runs
fn digest(args: &[String]) -> i32 {
    let prop = arg(args, "--prop").unwrap_or("C06");
    let seed = arg_u64(args, "--seed").unwrap_or(1);
    let from = arg_u64(args, "--from").unwrap_or(0);
    let to = arg_u64(args, "--to").unwrap_or(1000);
    let tier = tier_of(args);
    let mut d = 0u64;
    let per_run = args.iter().any(|a| a == "--per-run");
    for i in from..to {
        let t = gen::gen(prop, seed, i, tier);
        let r = run_case(&t);
        let mut h = r.log_hash;
        h = crate::rng::mix(h, r.violations.len() as u64);
        h = crate::rng::mix(h, r.executions);
        if per_run {
            println!("{} {:016x}", i, h);
        }
        d = crate::rng::mix(d, h);
    }
    println!("digest {} {} {}..{} {:016x}", prop, seed, from, to, d);
    0
}

#[cfg(cachesim_asan)]
extern "C" {
    fn __lsan_do_recoverable_leak_check() -> i32;
}
/// AddressSanitizer builds: ask LeakSanitizer whether anything leaked so far
fn lsan_leak() -> bool {
    #[cfg(cachesim_asan)]
    {
        return unsafe { __lsan_do_recoverable_leak_check() } != 0;
    }
    #[allow(unreachable_code)]
    false
}

thread_local! {
    static PROGRESS_FILE: std::cell::RefCell<Option<(std::fs::File, u64)>> = const { std::cell::RefCell::new(None) };
}
/// called by the C18 enumeration before each fault-injected execution: a crash is then pinned to
/// (run index, injection point)
pub fn note_fault(fault: u64) {
    PROGRESS_FILE.with(|p| {
        if let Some((f, run)) = p.borrow_mut().as_mut() {
            use std::io::Seek;
            let _ = f.seek(std::io::SeekFrom::Start(0));
            let _ = f.write_all(format!("{:020} {:020}\n", run, fault).as_bytes());
        }
    })
}

/// liveness signal for the supervisor's stall monitor during long harness-side work (shrinking)
pub fn heartbeat() {
    thread_local! {
        static BEAT: std::cell::Cell<u64> = const { std::cell::Cell::new(0) };
    }
    let b = BEAT.with(|c| {
        c.set(c.get() + 1);
        c.get()
    });
    PROGRESS_FILE.with(|p| {
        if let Some((f, run)) = p.borrow_mut().as_mut() {
            use std::io::Seek;
            let _ = f.seek(std::io::SeekFrom::Start(0));
            let _ = f.write_all(format!("{:020} {:020} {:020}\n", run, 0, b).as_bytes());
        }
    })
}

struct Found {
    v: Violation,
    trace: Trace,
    orig_index: u64,
    shrink_tests: u64,
    orig_events: usize,
}

fn worker(args: &[String]) -> i32 {
    let prop = arg(args, "--prop").unwrap_or("C06").to_string();
    let seed = arg_u64(args, "--seed").unwrap_or(1);
    let from = arg_u64(args, "--from").unwrap_or(0);
    let to = arg_u64(args, "--to").unwrap_or(1000);
    let out = arg(args, "--out").unwrap_or("/dev/stdout").to_string();
    let deadline_s = arg_u64(args, "--deadline-s").unwrap_or(3600);
    let only_prop = !args.iter().any(|a| a == "--all-props");
    let tier = tier_of(args);
    let start = Instant::now();
    let mut stats = Stats::default();
    let mut executions = 0u64;
    let mut events = 0u64;
    let mut runs = 0u64;
    let mut digest = 0u64;
    let mut found: Vec<Found> = Vec::new();
    let mut fingerprints: BTreeMap<String, u64> = BTreeMap::new();
    let mut other_props: BTreeMap<String, u64> = BTreeMap::new();
    let mut samples: Vec<Value> = Vec::new();
    let mut harness_errors: Vec<String> = Vec::new();
    let progress_path = format!("{}.progress", out);
    let mut progress = std::fs::File::create(&progress_path).ok();
    if let Ok(f2) = std::fs::OpenOptions::new().write(true).open(&progress_path) {
        PROGRESS_FILE.with(|p| *p.borrow_mut() = Some((f2, from)));
    }
    for i in from..to {
        if start.elapsed().as_secs() >= deadline_s {
            stats.bump("deadline_hit");
            break;
        }
        if let Some(f) = progress.as_mut() {
            use std::io::Seek;
            let _ = f.seek(std::io::SeekFrom::Start(0));
            let _ = f.write_all(format!("{:020} {:020}\n", i, 0).as_bytes());
        }
        PROGRESS_FILE.with(|p| {
            if let Some((_, run)) = p.borrow_mut().as_mut() {
                *run = i;
            }
        });
        let t = gen::gen(&prop, seed, i, tier);
        let r = run_case(&t);
        runs += 1;
        executions += r.executions;
        events += r.events;
        stats.merge(&r.stats);
        digest = crate::rng::mix(digest, r.log_hash);
        stats.bump(&format!("subject:{}", t.header.kind.name()));
        if prop == "C05" && (i as usize) < gen::c05_grid().len() {
            stats.bump("ctor_grid_points_enumerated");
        }
        stats.bump(&format!("key_type:{}", t.header.key_type));
        if t.header.random_state {
            stats.bump("uncontrolled_hasher_runs");
        }
        for h in &t.header.hashers {
            stats.bump(&format!("hasher:{}", crate::hashers::HKIND_NAMES[h.kind as usize]));
        }
        if t.alloc.pad_seed != 0 {
            stats.bump("alloc_perturb_runs");
        }
        if let Some(e) = r.harness_error {
            harness_errors.push(format!("run {}: {}", i, e));
        }
        // LeakSanitizer's check stops the world: do it once per window and pin the run afterwards
        let window = 512u64;
        let mut leaking: Option<(u64, Trace)> = None;
        if prop != "C18" && cfg!(cachesim_asan) && ((i - from) % window == window - 1 || i + 1 == to) && lsan_leak() {
            let lo = i - (i - from) % window;
            for j in lo..=i {
                let tj = gen::gen(&prop, seed, j, tier);
                let _ = run_case(&tj);
                if lsan_leak() {
                    leaking = Some((j, tj));
                    break;
                }
            }
            if leaking.is_none() {
                leaking = Some((i, t.clone()));
            }
        }
        if let Some((j, tj)) = leaking {
            let (i, t) = (j, tj);
            let v = Violation {
                prop: prop.clone(),
                oracle: "lsan_leak".into(),
                step: -1,
                op: "?".into(),
                detail: "LeakSanitizer reports heap memory that is no longer reachable after this run".into(),
            };
            let fp = v.fingerprint();
            let n = fingerprints.entry(fp).or_insert(0);
            *n += 1;
            if *n == 1 {
                found.push(Found {
                    v,
                    trace: t.clone(),
                    orig_index: i,
                    shrink_tests: 0,
                    orig_events: t.events.len(),
                });
            }
        }
        if samples.len() < 3 && t.events.len() >= 3 && t.events.len() <= 14 && r.violations.is_empty() {
            samples.push(t.to_json());
        }
        for (v, tr) in r.violations {
            if only_prop && v.prop != prop {
                *other_props.entry(v.fingerprint()).or_insert(0) += 1;
                continue;
            }
            let fp = v.fingerprint();
            let n = fingerprints.entry(fp).or_insert(0);
            *n += 1;
            if *n > 1 || found.len() >= 6 {
                continue;
            }
            let orig_events = tr.events.len();
            // should minimising kill this process (a candidate that runs into undefined behaviour),
            // the supervisor reports the violation as found instead of an unattributed crash
            let pending_path = format!("{}.pending", out);
            let pending = json!({
                "property": v.prop, "oracle": v.oracle, "step": v.step, "op": v.op,
                "detail": format!("{} [the worker process died while minimising this trace; reported as found]", v.detail),
                "orig_run_index": i, "shrink_tests": 0, "orig_events": orig_events, "trace": tr.to_json(),
            });
            let _ = std::fs::write(&pending_path, serde_json::to_string(&pending).unwrap());
            let sh = shrink(&tr, &v, 1500);
            let _ = std::fs::remove_file(&pending_path);
            found.push(Found {
                v: sh.violation,
                trace: sh.trace,
                orig_index: i,
                shrink_tests: sh.tests,
                orig_events,
            });
        }
    }
    // distinct set to a side file (binary u64 LE)
    let dpath = format!("{}.distinct", out);
    if let Ok(mut f) = std::fs::File::create(&dpath) {
        let mut buf: Vec<u8> = Vec::with_capacity(stats.distinct.len() * 8);
        for d in &stats.distinct {
            buf.extend_from_slice(&d.to_le_bytes());
        }
        let _ = f.write_all(&buf);
    }
    let res = json!({
        "runs": runs,
        "executions": executions,
        "events": events,
        "digest": format!("{:016x}", digest),
        "counters": stats.counters,
        "distinct_local": stats.distinct.len(),
        "fingerprints": fingerprints,
        "other_property_fingerprints": other_props,
        "violations": found.iter().map(|f| json!({
            "property": f.v.prop, "oracle": f.v.oracle, "step": f.v.step, "op": f.v.op, "detail": f.v.detail,
            "orig_run_index": f.orig_index, "shrink_tests": f.shrink_tests, "orig_events": f.orig_events,
            "trace": f.trace.to_json(),
        })).collect::<Vec<_>>(),
        "samples": samples,
        "harness_errors": harness_errors,
        "wall_s": start.elapsed().as_secs_f64(),
    });
    if std::fs::write(&out, serde_json::to_string(&res).unwrap()).is_err() {
        return 2;
    }
    let _ = std::fs::remove_file(&progress_path);
    0
}

fn write_replay(dir: &str, prop: &str, v: &Value) -> String {
    let _ = std::fs::create_dir_all(dir);
    let fp = format!(
        "{}|{}|{}",
        v["property"].as_str().unwrap_or(""),
        v["oracle"].as_str().unwrap_or(""),
        v["op"].as_str().unwrap_or("")
    );
    let path = format!("{}/{}-{:08x}.json", dir, prop, crate::rng::fnv64(&fp) as u32);
    let mut t = v["trace"].clone();
    t["expect"] = json!({
        "property": v["property"], "oracle": v["oracle"], "op": v["op"], "step": v["step"],
        "class": v.get("class").cloned().unwrap_or(json!("oracle")),
        "executor": std::env::var("CACHESIM_EXECUTOR").unwrap_or_else(|_| "native".into()),
        "detail": v["detail"],
        "orig_run_index": v["orig_run_index"], "orig_events": v["orig_events"],
    });
    let _ = std::fs::write(&path, serde_json::to_string_pretty(&t).unwrap());
    path
}

fn self_exe() -> std::path::PathBuf {
    std::env::current_exe().expect("current_exe")
}

fn replay_inner(args: &[String]) -> i32 {
    let path = match args.get(2) {
        Some(p) => p,
        None => return 2,
    };
    let txt = match std::fs::read_to_string(path) {
        Ok(t) => t,
        Err(_) => return 2,
    };
    let v: Value = match serde_json::from_str(&txt) {
        Ok(v) => v,
        Err(_) => return 2,
    };
    let t = match Trace::from_json(&v) {
        Ok(t) => t,
        Err(e) => {
            eprintln!("bad replay file: {}", e);
            return 2;
        }
    };
    let exp = &v["expect"];
    let (prop, oracle) = (exp["property"].as_str().unwrap_or(""), exp["oracle"].as_str().unwrap_or(""));
    let r = run_case(&t);
    for (vi, _) in &r.violations {
        if vi.prop == prop && (vi.oracle == oracle || exp["class"] == "crash") {
            println!("REPRODUCED property={} oracle={} step={} op={}", vi.prop, vi.oracle, vi.step, vi.op);
            println!("DETAIL {}", vi.detail);
            return 1;
        }
    }
    for (vi, _) in &r.violations {
        println!("OTHER property={} oracle={} step={} op={} :: {}", vi.prop, vi.oracle, vi.step, vi.op, vi.detail);
    }
    0
}

/// `cachesim replay FILE`: fresh process; crash of the child counts as reproduced for crash files
fn replay(args: &[String]) -> i32 {
    let path = match args.get(2) {
        Some(p) => p.clone(),
        None => return 2,
    };
    let (code, out) = run_replay_child(&path);
    print!("{}", out);
    let prop = std::fs::read_to_string(&path)
        .ok()
        .and_then(|t| serde_json::from_str::<Value>(&t).ok())
        .and_then(|v| v["expect"]["property"].as_str().map(|s| s.to_string()))
        .unwrap_or_default();
    match code {
        ReplayOutcome::Reproduced | ReplayOutcome::Crashed => {
            println!("VIOLATION property={} replay={}", prop, path);
            1
        }
        ReplayOutcome::NotReproduced => {
            println!("NOT-REPRODUCED replay={}", path);
            0
        }
        ReplayOutcome::Error => 2,
    }
}

#[derive(PartialEq)]
enum ReplayOutcome {
    Reproduced,
    Crashed,
    NotReproduced,
    Error,
}

/// wait for a child with a wall-clock limit; None = it had to be killed (hang)
fn wait_limited(mut child: std::process::Child, limit_s: u64) -> Option<std::process::Output> {
    let start = Instant::now();
    loop {
        match child.try_wait() {
            Ok(Some(_)) => return child.wait_with_output().ok(),
            Ok(None) => {
                if start.elapsed().as_secs() >= limit_s {
                    let _ = child.kill();
                    let _ = child.wait();
                    return None;
                }
                std::thread::sleep(std::time::Duration::from_millis(20));
            }
            Err(_) => return None,
        }
    }
}

fn run_replay_child(path: &str) -> (ReplayOutcome, String) {
    run_replay_child_limit(path, 30)
}

fn run_replay_child_limit(path: &str, limit_s: u64) -> (ReplayOutcome, String) {
    // the child's output goes to a file: a pipe nobody drains would block a talkative child and
    // make a finished replay look like a hang
    let out_path = format!("{}.out.{}", path, std::process::id());
    let out_file = match std::fs::File::create(&out_path) {
        Ok(f) => f,
        Err(_) => return (ReplayOutcome::Error, String::new()),
    };
    let child = std::process::Command::new(self_exe())
        .arg("replay-inner")
        .arg(path)
        .stdout(std::process::Stdio::from(out_file))
        .stderr(std::process::Stdio::null())
        .spawn();
    let o = match child {
        Err(_) => return (ReplayOutcome::Error, String::new()),
        Ok(c) => wait_limited(c, limit_s),
    };
    let captured = std::fs::read_to_string(&out_path).unwrap_or_default();
    let _ = std::fs::remove_file(&out_path);
    match o {
        // a replay that does not terminate reproduces a hang
        None => (ReplayOutcome::Crashed, format!("REPRODUCED (the replay did not terminate within {} s and was killed)\n", limit_s)),
        Some(o) => {
            let s = captured;
            match o.status.code() {
                Some(1) => (ReplayOutcome::Reproduced, s),
                Some(0) => (ReplayOutcome::NotReproduced, s),
                Some(_) => (ReplayOutcome::Error, s),
                None => (ReplayOutcome::Crashed, s),
            }
        }
    }
}

/// ddmin over the events of a trace whose replay kills the process (or hangs): every candidate is
/// executed in a child process; "still crashes" is the predicate.
fn shrink_crash(v: &Value, tmp: &str) -> Value {
    let mut best = v.clone();
    let crashes = |cand: &Value, n: &mut u32| -> bool {
        *n += 1;
        let path = format!("{}/crash-cand.json", tmp);
        let mut t = cand["trace"].clone();
        t["expect"] = json!({"property": cand["property"], "oracle": cand["oracle"], "op": "?", "class": "crash"});
        if std::fs::write(&path, serde_json::to_string(&t).unwrap()).is_err() {
            return false;
        }
        // (the longest legitimate run takes a few seconds: a candidate still running after 8 s hangs)
        matches!(run_replay_child_limit(&path, 8).0, ReplayOutcome::Crashed)
    };
    let started = Instant::now();
    let mut tests = 0u32;
    let events = |x: &Value| x["trace"]["events"].as_array().cloned().unwrap_or_default();
    if !crashes(&best, &mut tests) {
        return best; // not reproducible as a crash: leave as is (the confirmation step decides)
    }
    let mut chunk = (events(&best).len() / 2).max(1);
    // bounded: at most 400 candidates and one minute
    while tests < 400 && started.elapsed().as_secs() < 60 {
        let mut i = 0;
        let mut progressed = false;
        loop {
            let ev = events(&best);
            if i >= ev.len() || tests >= 400 || started.elapsed().as_secs() >= 60 {
                break;
            }
            let mut ne = ev.clone();
            let end = (i + chunk).min(ne.len());
            ne.drain(i..end);
            let mut cand = best.clone();
            cand["trace"]["events"] = Value::Array(ne);
            if crashes(&cand, &mut tests) {
                best = cand;
                progressed = true;
            } else {
                i += chunk;
            }
        }
        if chunk == 1 && !progressed {
            break;
        }
        chunk = (chunk / 2).max(1);
    }
    best["shrink_tests"] = json!(tests);
    best["detail"] = json!(format!(
        "{} [minimised to {} events by re-executing candidates in child processes]",
        best["detail"].as_str().unwrap_or(""),
        events(&best).len()
    ));
    best
}

/// the violation a dead worker was minimising (see `worker`)
fn read_pending(out: &str) -> Option<Value> {
    let t = std::fs::read_to_string(format!("{}.pending", out)).ok()?;
    serde_json::from_str::<Value>(&t).ok()
}

fn read_progress(path: &str) -> Option<(u64, u64)> {
    let s = std::fs::read_to_string(path).ok()?;
    let mut it = s.split_whitespace();
    let run = it.next()?.parse::<u64>().ok()?;
    let fault = it.next().and_then(|x| x.parse::<u64>().ok()).unwrap_or(0);
    Some((run, fault))
}

fn load_known(path: &str) -> Vec<Value> {
    std::fs::read_to_string(path)
        .ok()
        .and_then(|t| serde_json::from_str::<Value>(&t).ok())
        .and_then(|v| v.get("findings").and_then(|f| f.as_array().cloned()))
        .unwrap_or_default()
}

fn check(args: &[String]) -> i32 {
    let prop = arg(args, "--prop").unwrap_or("C06").to_string();
    let tier = tier_of(args);
    let seed = arg_u64(args, "--seed")
        .or_else(|| std::env::var("VERIF_SEED").ok().and_then(|s| s.parse().ok()))
        .unwrap_or(1);
    let nworkers = arg_u64(args, "--workers")
        .or_else(|| std::env::var("CACHESIM_WORKERS").ok().and_then(|s| s.parse().ok()))
        .unwrap_or(16)
        .max(1);
    let runs = arg_u64(args, "--runs").unwrap_or_else(|| default_runs(&prop, tier)) / arg_u64(args, "--runs-div").unwrap_or(1).max(1);
    let evidence_path = arg(args, "--evidence").map(|s| s.to_string());
    let replay_dir = arg(args, "--replays").unwrap_or("/verif/replays").to_string();
    let known_path = arg(args, "--known").unwrap_or("/verif/known_findings.json").to_string();
    let level = arg(args, "--level").unwrap_or(if prop == "C18" { "fault_enumeration" } else { "exploration" }).to_string();
    let deadline_s = arg_u64(args, "--deadline-s").unwrap_or(match tier {
        Tier::Quick => 100,
        Tier::Thorough => 1500,
    });
    let tmp = arg(args, "--tmp").map(|s| s.to_string()).unwrap_or_else(|| {
        let d = format!("/verif/sim/target/tmp/{}-{}-{}", prop, tier_name(tier), std::process::id());
        d
    });
    let _ = std::fs::create_dir_all(&tmp);
    let start = Instant::now();
    println!("SEED {} property={} tier={} flavour={} runs={} workers={}", seed, prop, tier_name(tier), gen::flavour(), runs, nworkers);

    // ---- spawn the workers ---------------------------------------------------------------
    let per = runs.div_ceil(nworkers);
    let mut slices: Vec<(u64, u64)> = Vec::new();
    for w in 0..nworkers {
        let from = w * per;
        let to = ((w + 1) * per).min(runs);
        if from >= to {
            break;
        }
        slices.push((from, to));
    }
    let mut counters: BTreeMap<String, u64> = BTreeMap::new();
    let mut distinct: BTreeSet<u64> = BTreeSet::new();
    let (mut t_runs, mut t_exec, mut t_events) = (0u64, 0u64, 0u64);
    let mut violations: Vec<Value> = Vec::new();
    let mut fingerprints: BTreeMap<String, u64> = BTreeMap::new();
    let mut other_fp: BTreeMap<String, u64> = BTreeMap::new();
    let mut samples: Vec<Value> = Vec::new();
    let mut harness_errors: Vec<String> = Vec::new();
    let mut digest = 0u64;
    // A worker that dies (or is killed) inside run i is replaced by one that continues at run i+1,
    // so that one crashing history does not cost the rest of its slice.
    // (the longest legitimate run, a 2^16-entry configuration of the thorough tier, takes seconds)
    let stall_s = std::env::var("CACHESIM_STALL_S").ok().and_then(|s| s.parse::<u64>().ok()).unwrap_or(match tier {
        Tier::Quick => 45,
        Tier::Thorough => 240,
    });
    let mut next_w = 0u64;
    let mut rounds = 0u32;
    let mut respawned = 0u64;
    while !slices.is_empty() && rounds < 200 {
    rounds += 1;
    let mut children = Vec::new();
    for (from, to) in std::mem::take(&mut slices) {
        let w = next_w;
        next_w += 1;
        let out = format!("{}/w{}.json", tmp, w);
        let child = std::process::Command::new(self_exe())
            .args([
                "worker",
                "--prop",
                &prop,
                "--tier",
                tier_name(tier),
                "--seed",
                &seed.to_string(),
                "--from",
                &from.to_string(),
                "--to",
                &to.to_string(),
                "--out",
                &out,
                "--deadline-s",
                &deadline_s.to_string(),
            ])
            .stdout(std::process::Stdio::null())
            .stderr(std::process::Stdio::piped())
            .spawn();
        match child {
            Ok(c) => children.push((w, from, to, out, c)),
            Err(e) => {
                eprintln!("HARNESS-ERROR cannot spawn worker: {}", e);
                return 2;
            }
        }
    }
    // stderr of a worker is small (panic hook is quiet); draining it after exit is safe
    let hard_limit = deadline_s + 60;
    let t0 = Instant::now();
    // stall monitor: a worker whose progress file (rewritten before every run) has not changed for
    // STALL_S seconds is stuck inside one run: kill it now instead of waiting for the deadline
    let mut stalled: BTreeSet<u64> = BTreeSet::new();
    {
        let mut last: Vec<(String, Instant)> = children.iter().map(|_| (String::new(), Instant::now())).collect();
        loop {
            let mut all_done = true;
            for (i, (w, _, _, out, child)) in children.iter_mut().enumerate() {
                if let Ok(Some(_)) = child.try_wait() {
                    continue;
                }
                all_done = false;
                let cur = std::fs::read_to_string(format!("{}.progress", out)).unwrap_or_default();
                if cur != last[i].0 {
                    last[i] = (cur, Instant::now());
                } else if last[i].1.elapsed().as_secs() >= stall_s && !stalled.contains(w) {
                    let _ = child.kill();
                    stalled.insert(*w);
                }
            }
            if all_done || t0.elapsed().as_secs() >= hard_limit {
                break;
            }
            std::thread::sleep(std::time::Duration::from_millis(50));
        }
    }
    for (w, from, to, out, child) in children {
        let left = hard_limit.saturating_sub(t0.elapsed().as_secs()).max(1);
        let o: Result<std::process::Output, String> = match wait_limited(child, left) {
            Some(_) if stalled.contains(&w) => Err("killed".into()),
            Some(o) => Ok(o),
            None => Err("killed".into()),
        };
        if o.is_err() {
            // a worker that had to be killed hung inside one run (an operation that never returns
            // and calls no user code escapes the in-process watchdog)
            let progress = read_progress(&format!("{}.progress", out));
            if let Some((idx, _)) = progress {
                if idx + 1 < to {
                    slices.push((idx + 1, to));
                    respawned += 1;
                }
            }
            if let Some(p) = read_pending(&out) {
                violations.push(p);
                continue;
            }
            if let Some((idx, fault)) = progress {
                let mut t = gen::gen(&prop, seed, idx, tier);
                if fault != 0 {
                    t.faults = vec![fault];
                }
                let tag = if prop == "C18" && fault != 0 && crate::runner::fault_in_rehash(&t) { crate::runner::REHASH_TAG } else { "" };
                violations.push(json!({
                    "property": prop.as_str(),
                    "oracle": format!("process_hang{}", tag), "step": -1, "op": "?", "class": "crash",
                    "detail": format!("worker process did not finish run {} (slice {}..{}) within the wall-clock limit and was killed: an operation does not terminate", idx, from, to),
                    "orig_run_index": idx, "shrink_tests": 0, "orig_events": t.events.len(),
                    "trace": t.to_json(),
                }));
            } else {
                harness_errors.push(format!("worker {} had to be killed and left no progress file", w));
            }
            continue;
        }
        let status = match &o {
            Ok(o) => o.status,
            Err(e) => {
                harness_errors.push(format!("worker {} wait failed: {}", w, e));
                continue;
            }
        };
        let crashed = status.code().is_none();
        if crashed || status.code() != Some(0) {
            // a worker killed by a signal (wild pointer, double-panic abort) is itself a finding
            let progress = read_progress(&format!("{}.progress", out));
            if let (true, Some((idx, _))) = (crashed, progress) {
                if idx + 1 < to {
                    slices.push((idx + 1, to));
                    respawned += 1;
                }
            }
            if let (true, Some(p)) = (crashed, read_pending(&out)) {
                violations.push(p);
                continue;
            }
            let stderr = o.as_ref().map(|o| String::from_utf8_lossy(&o.stderr).to_string()).unwrap_or_default();
            match (crashed, progress) {
                (true, Some((idx, fault))) => {
                    let mut t = gen::gen(&prop, seed, idx, tier);
                    if fault != 0 {
                        t.faults = vec![fault];
                    }
                    let tag = if prop == "C18" && fault != 0 && crate::runner::fault_in_rehash(&t) { crate::runner::REHASH_TAG } else { "" };
                    violations.push(json!({
                        "property": prop.as_str(),
                        "oracle": format!("process_crash{}", tag), "step": -1, "op": "?", "class": "crash",
                        "detail": format!("worker process died by a signal while executing run {} (slice {}..{}): {}", idx, from, to, stderr.lines().last().unwrap_or("")),
                        "orig_run_index": idx, "shrink_tests": 0, "orig_events": t.events.len(),
                        "trace": t.to_json(),
                    }));
                }
                _ => harness_errors.push(format!("worker {} exited with {:?}: {}", w, status.code(), stderr.lines().last().unwrap_or(""))),
            }
            continue;
        }
        let txt = match std::fs::read_to_string(&out) {
            Ok(t) => t,
            Err(e) => {
                harness_errors.push(format!("worker {} output unreadable: {}", w, e));
                continue;
            }
        };
        let v: Value = match serde_json::from_str(&txt) {
            Ok(v) => v,
            Err(e) => {
                harness_errors.push(format!("worker {} output unparsable: {}", w, e));
                continue;
            }
        };
        t_runs += v["runs"].as_u64().unwrap_or(0);
        t_exec += v["executions"].as_u64().unwrap_or(0);
        t_events += v["events"].as_u64().unwrap_or(0);
        digest = crate::rng::mix(digest, u64::from_str_radix(v["digest"].as_str().unwrap_or("0"), 16).unwrap_or(0));
        if let Some(c) = v["counters"].as_object() {
            for (k, n) in c {
                *counters.entry(k.clone()).or_insert(0) += n.as_u64().unwrap_or(0);
            }
        }
        if let Some(c) = v["fingerprints"].as_object() {
            for (k, n) in c {
                *fingerprints.entry(k.clone()).or_insert(0) += n.as_u64().unwrap_or(0);
            }
        }
        if let Some(c) = v["other_property_fingerprints"].as_object() {
            for (k, n) in c {
                *other_fp.entry(k.clone()).or_insert(0) += n.as_u64().unwrap_or(0);
            }
        }
        if let Some(vs) = v["violations"].as_array() {
            violations.extend(vs.iter().cloned());
        }
        if let Some(ss) = v["samples"].as_array() {
            for s in ss {
                if samples.len() < 4 {
                    samples.push(s.clone());
                }
            }
        }
        if let Some(hs) = v["harness_errors"].as_array() {
            for h in hs {
                harness_errors.push(h.as_str().unwrap_or("").to_string());
            }
        }
        if let Ok(bytes) = std::fs::read(format!("{}.distinct", out)) {
            for c in bytes.chunks_exact(8) {
                distinct.insert(u64::from_le_bytes(c.try_into().unwrap()));
            }
        }
    }
    }
    if respawned > 0 {
        counters.insert("workers_replaced_after_a_crash_or_hang".into(), respawned);
    }
    // ---- violations: dedupe, write replay, confirm in a fresh process ------------------------
    let known = load_known(&known_path);
    let mut seen: BTreeSet<String> = BTreeSet::new();
    let mut reported: Vec<Value> = Vec::new();
    let mut known_hits: Vec<String> = Vec::new();
    let mut unconfirmed = 0u64;
    let mut unconfirmed_uncontrolled = 0u64;
    violations.sort_by_key(|v| v["orig_run_index"].as_u64().unwrap_or(0));
    for v in &violations {
        let fp = format!(
            "{}|{}|{}",
            v["property"].as_str().unwrap_or(""),
            v["oracle"].as_str().unwrap_or(""),
            v["op"].as_str().unwrap_or("")
        );
        if !seen.insert(fp.clone()) {
            continue;
        }
        // open known findings suppress nothing but themselves
        // (an entry names either one fingerprint or, with "oracle_suffix", the class of injection
        // points its failing histories have in common)
        let k = known.iter().find(|k| {
            k["status"] == "open"
                && k["property"].as_str() == v["property"].as_str()
                && (k["fingerprint"].as_str() == Some(fp.as_str())
                    || k["oracle_suffix"].as_str().map(|s| !s.is_empty() && v["oracle"].as_str().unwrap_or("").ends_with(s)).unwrap_or(false))
        });
        if let Some(k) = k {
            let line = format!("KNOWN-FINDING: property={} {} {}", v["property"].as_str().unwrap_or(""), k["id"].as_str().unwrap_or(""), k["what"].as_str().unwrap_or(""));
            if !known_hits.contains(&line) {
                known_hits.push(line);
            }
            continue;
        }
        let shrunk;
        let v = if v.get("class").and_then(|c| c.as_str()) == Some("crash") {
            let _ = std::fs::create_dir_all(&tmp);
            shrunk = shrink_crash(v, &tmp);
            &shrunk
        } else {
            v
        };
        let path = write_replay(&replay_dir, &prop, v);
        // (a replay is given longer than the stall monitor gave the run, so that "slow" is never
        // confirmed as "does not terminate")
        let (outc, _) = run_replay_child_limit(&path, stall_s + 15);
        match outc {
            ReplayOutcome::Reproduced | ReplayOutcome::Crashed => {
                let mut r = v.clone();
                r["replay"] = json!(path);
                reported.push(r);
            }
            _ => {
                let uncontrolled = v["trace"]["config"]["random_state"].as_bool().unwrap_or(false);
                if uncontrolled {
                    // RandomState is the one seam the simulator does not own (DESIGN 3.6): a
                    // violation that does not replay is never reported
                    unconfirmed_uncontrolled += 1;
                    println!("INFO violation {} seen in an uncontrolled-hasher run did not replay in a fresh process; not reported", fp);
                    let _ = std::fs::remove_file(&path);
                } else if v["oracle"].as_str().map(|o| o.starts_with("process_hang")).unwrap_or(false) && matches!(outc, ReplayOutcome::NotReproduced) {
                    // the run the stall monitor gave up on completes (without any violation) when
                    // replayed: it was slow, not stuck. Not a violation; the rest of that worker's
                    // slice was not executed, which the run count of the evidence shows.
                    println!("NOTE run {} was abandoned by the stall monitor but completes when replayed: slow, not a violation", v["orig_run_index"]);
                    let _ = std::fs::remove_file(&path);
                } else {
                    unconfirmed += 1;
                    eprintln!("UNCONFIRMED violation {} did not reproduce from {} in a fresh process", fp, path);
                }
            }
        }
    }
    let _ = std::fs::remove_dir_all(&tmp);
    let wall = start.elapsed().as_secs_f64();

    // ---- evidence ---------------------------------------------------------------------------
    let fault_counts: BTreeMap<String, u64> = counters
        .iter()
        .filter(|(k, _)| k.starts_with("fault_") || k.starts_with("hasher:") || k == &"alloc_perturb_runs" || k == &"forks" || k == &"differential_pairs" || k.starts_with("calls:"))
        .map(|(k, v)| (k.clone(), *v))
        .collect();
    let probes: BTreeMap<String, u64> = counters
        .iter()
        .filter(|(k, _)| !(k.starts_with("fault_") || k.starts_with("hasher:") || k.starts_with("calls:")))
        .map(|(k, v)| (k.clone(), *v))
        .collect();
    let rule = rule_text(&prop);
    let ev = json!({
        "property_id": prop,
        "tier": tier_name(tier),
        "seed": seed,
        "level": level,
        "coverage": {
            "evaluations": t_exec.max(1),
            "distinct_nontrivial": distinct.len(),
            "rule": rule,
            "samples": samples,
            "simulated_runs": t_runs,
            "simulated_executions": t_exec,
            "simulated_events": t_events,
            "runs_per_hour": if wall > 0.0 { (t_runs as f64 / wall * 3600.0) as u64 } else { 0 },
            "executions_per_hour": if wall > 0.0 { (t_exec as f64 / wall * 3600.0) as u64 } else { 0 },
            "simulated_time": "no clock is read by the subject except the sketch seed (seam N3); 'time' is the number of simulated events",
            "flavour": gen::flavour(),
            "workers": nworkers,
            "log_digest": format!("{:016x}", digest),
            "faults_and_environment": fault_counts,
            "probes": probes,
            "violation_fingerprints_seen": fingerprints,
            "other_property_fingerprints_seen": other_fp,
            "known_findings_hit": known_hits,
            "unconfirmed": unconfirmed,
            "unconfirmed_uncontrolled_hasher": unconfirmed_uncontrolled,
            "harness_errors": harness_errors,
            "real_components": ["everything under /repo/src (caches crate, feature verif-hooks) incl. hashbrown/std HashMap"],
            "stub_components": ["BuildHasher/Hasher (SimBuildHasher)", "KeyHasher (SimKeyHasher)", "eviction callback (SimCallback)", "global allocator (SimAlloc: poison, quarantine, liveness table)", "sketch clock (hook H4)", "key/value types (TK, SKey, TV: ledger-tracked)"],
            "exhaustive": false
        },
        "assumptions": [
            "sampling, not proof: verdict covers the generated histories/environments only",
            "oracles are the transition relations and leniencies of DESIGN.md sections 4-5",
            "the audit hooks (verif_audit etc.) report the lists faithfully"
        ],
        "wall_s": wall,
        "violations": reported.len()
    });
    if let Some(p) = &evidence_path {
        if let Some(dir) = std::path::Path::new(p).parent() {
            let _ = std::fs::create_dir_all(dir);
        }
        if std::fs::write(p, serde_json::to_string_pretty(&ev).unwrap()).is_err() {
            eprintln!("HARNESS-ERROR cannot write evidence {}", p);
            return 2;
        }
    }
    println!(
        "SUMMARY property={} runs={} executions={} events={} distinct={} wall_s={:.1} runs_per_hour={}",
        prop,
        t_runs,
        t_exec,
        t_events,
        distinct.len(),
        wall,
        if wall > 0.0 { (t_runs as f64 / wall * 3600.0) as u64 } else { 0 }
    );
    for k in &known_hits {
        println!("{}", k);
    }
    for (k, n) in &other_fp {
        println!("INFO other-property violation seen (not this check's verdict): {} x{}", k, n);
    }
    for r in &reported {
        println!(
            "DETAIL {} {} step {} op {} (minimised from run {} with {} events): {}",
            r["property"].as_str().unwrap_or(""),
            r["oracle"].as_str().unwrap_or(""),
            r["step"],
            r["op"].as_str().unwrap_or(""),
            r["orig_run_index"],
            r["orig_events"],
            r["detail"].as_str().unwrap_or("")
        );
        println!("VIOLATION property={} replay={}", r["property"].as_str().unwrap_or(""), r["replay"].as_str().unwrap_or(""));
    }
    if !reported.is_empty() {
        return 1;
    }
    if !harness_errors.is_empty() || unconfirmed > 0 || t_runs == 0 {
        for h in &harness_errors {
            eprintln!("HARNESS-ERROR {}", h);
        }
        return 2;
    }
    0
}

fn rule_text(prop: &str) -> String {
    let common = "cases = seeded simulated runs (configuration x environment x schedule x history), each executed against the real crate; \
distinct_nontrivial = number of distinct (canonical abstract pre-state shape, operation kind, result class, post-state shape) tuples reached in steps where every oracle was evaluated (state shapes canonicalise key names by first appearance)";
    match prop {
        "C18" => "cases = executions, one per (sampled history, injection point): a panic is thrown from the i-th call into user code for every i of the history; distinct_nontrivial = distinct (abstract state, operation, result) tuples of the fault-free base runs plus distinct (operation, user-call kind) injection sites at which a fault actually fired".to_string(),
        _ => common.to_string(),
    }
}
