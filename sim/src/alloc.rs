//! The simulated allocator (seam N4).
//!
//! While a run is in scope and the harness is *inside a library call*, every allocation is
//! recorded in a liveness table, filled with 0xA5, optionally padded (address perturbation), and on
//! free it is filled with 0xDD, marked dead and quarantined until the end of the run. So within a
//! run every address is handed out at most once: "is this node live?" is exact, a stale pointer can
//! never alias a newer block, a write-after-free damages the poison (checked at the end of the run)
//! and a double / foreign free is recorded instead of executed.
//!
//! Allocations made by harness code are not tracked (harness_scope). Under Miri and in the ASan
//! build the allocator is compiled/pinned to pass-through so those tools see the real malloc/free.
use std::alloc::{GlobalAlloc, Layout, System};
use std::cell::Cell;

pub const POISON_NEW: u8 = 0xA5;
pub const POISON_FREED: u8 = 0xDD;

#[derive(Clone, Copy)]
struct Slot {
    addr: usize, // user address (key); 0 = empty
    base: usize, // address returned by System
    size: usize, // user size
    total: usize,
    align: usize,
    live: bool,
}
const EMPTY: Slot = Slot {
    addr: 0,
    base: 0,
    size: 0,
    total: 0,
    align: 0,
    live: false,
};

const TOMBSTONE: usize = usize::MAX;
const TABLE_BITS: usize = 19;
const TABLE_SIZE: usize = 1 << TABLE_BITS;

struct State {
    table: *mut Slot,
    /// indices of the table slots filled since the run began (`used` of them): the end-of-run
    /// sweep visits these instead of the whole table
    touched: *mut u32,
    used: usize,
    overflow: bool,
    live_blocks: i64,
    live_bytes: i64,
    total_allocs: u64,
    pad_state: u64, // 0 = no padding
    quarantine: bool,
    errors: [Option<AllocError>; 8],
    n_errors: usize,
    /// padded blocks that were still live when their run ended (freed later by their owner)
    carry: [Slot; 64],
    n_carry: usize,
}

#[derive(Clone, Copy, Debug)]
pub struct AllocError {
    pub kind: &'static str,
    pub addr: usize,
    pub size: usize,
}

thread_local! {
    /// tracking enabled for this thread (a run is in scope)
    static ACTIVE: Cell<bool> = const { Cell::new(false) };
    /// harness is inside a library call (or user code called from it)
    static IN_LIB: Cell<bool> = const { Cell::new(false) };
    static STATE: Cell<*mut State> = const { Cell::new(std::ptr::null_mut()) };
}

pub struct SimAlloc;

#[inline]
fn tracking() -> bool {
    // try_with: never panic inside the allocator during thread teardown
    ACTIVE.try_with(|a| a.get()).unwrap_or(false)
}
#[inline]
fn in_lib() -> bool {
    IN_LIB.try_with(|a| a.get()).unwrap_or(false)
}

fn state() -> &'static mut State {
    STATE.with(|s| {
        if s.get().is_null() {
            unsafe {
                let table = System.alloc_zeroed(Layout::array::<Slot>(TABLE_SIZE).unwrap()) as *mut Slot;
                let touched = System.alloc_zeroed(Layout::array::<u32>(TABLE_SIZE).unwrap()) as *mut u32;
                let st = System.alloc(Layout::new::<State>()) as *mut State;
                st.write(State {
                    table,
                    touched,
                    used: 0,
                    overflow: false,
                    live_blocks: 0,
                    live_bytes: 0,
                    total_allocs: 0,
                    pad_state: 0,
                    quarantine: true,
                    errors: [None; 8],
                    n_errors: 0,
                    carry: [EMPTY; 64],
                    n_carry: 0,
                });
                s.set(st);
            }
        }
        unsafe { &mut *s.get() }
    })
}

#[inline]
fn hash_addr(a: usize) -> usize {
    ((a >> 3).wrapping_mul(0x9E37_79B9_7F4A_7C15usize)) >> (usize::BITS as usize - TABLE_BITS)
}

impl State {
    fn find(&mut self, addr: usize) -> Option<&mut Slot> {
        let mut i = hash_addr(addr);
        for _ in 0..TABLE_SIZE {
            let s = unsafe { &mut *self.table.add(i) };
            if s.addr == addr {
                return Some(s);
            }
            if s.addr == 0 {
                return None;
            }
            i = (i + 1) & (TABLE_SIZE - 1);
        }
        None
    }
    fn insert(&mut self, slot: Slot) -> bool {
        if self.used * 2 >= TABLE_SIZE {
            self.overflow = true;
            return false;
        }
        let mut i = hash_addr(slot.addr);
        loop {
            let s = unsafe { &mut *self.table.add(i) };
            if s.addr == 0 {
                *s = slot;
                unsafe { *self.touched.add(self.used) = i as u32 };
                self.used += 1;
                return true;
            }
            if s.addr == TOMBSTONE {
                *s = slot;
                return true;
            }
            if s.addr == slot.addr {
                // the system handed the address out again (only possible without quarantine)
                *s = slot;
                return true;
            }
            i = (i + 1) & (TABLE_SIZE - 1);
        }
    }
    fn error(&mut self, kind: &'static str, addr: usize, size: usize) {
        if self.n_errors < self.errors.len() {
            self.errors[self.n_errors] = Some(AllocError { kind, addr, size });
            self.n_errors += 1;
        }
    }
    fn next_pad(&mut self, align: usize) -> usize {
        if self.pad_state == 0 {
            return 0;
        }
        let r = crate::rng::splitmix64(&mut self.pad_state);
        let a = align.max(16);
        ((r >> 20) % 5) as usize * a
    }
}

unsafe impl GlobalAlloc for SimAlloc {
    unsafe fn alloc(&self, layout: Layout) -> *mut u8 {
        if cfg!(miri) || !tracking() || !in_lib() {
            return System.alloc(layout);
        }
        let st = state();
        let pad = st.next_pad(layout.align());
        let total = layout.size() + pad;
        let base = System.alloc(Layout::from_size_align_unchecked(total, layout.align()));
        if base.is_null() {
            return base;
        }
        let p = base.add(pad);
        std::ptr::write_bytes(base, POISON_NEW, total);
        let ok = st.insert(Slot {
            addr: p as usize,
            base: base as usize,
            size: layout.size(),
            total,
            align: layout.align(),
            live: true,
        });
        if !ok {
            // table full: hand the block out untracked (run will be flagged as a harness error)
            if pad != 0 {
                System.dealloc(base, Layout::from_size_align_unchecked(total, layout.align()));
                return System.alloc(layout);
            }
            return p;
        }
        st.live_blocks += 1;
        st.live_bytes += layout.size() as i64;
        st.total_allocs += 1;
        p
    }

    unsafe fn alloc_zeroed(&self, layout: Layout) -> *mut u8 {
        if cfg!(miri) || !tracking() || !in_lib() {
            return System.alloc_zeroed(layout);
        }
        let p = self.alloc(layout);
        if !p.is_null() {
            std::ptr::write_bytes(p, 0, layout.size());
        }
        p
    }

    unsafe fn dealloc(&self, ptr: *mut u8, layout: Layout) {
        if cfg!(miri) {
            return System.dealloc(ptr, layout);
        }
        if let Some((base, total, align)) = take_carry(ptr as usize) {
            return System.dealloc(base as *mut u8, Layout::from_size_align_unchecked(total, align));
        }
        if !tracking() {
            return System.dealloc(ptr, layout);
        }
        let st = state();
        let quarantine = st.quarantine;
        match st.find(ptr as usize) {
            None => System.dealloc(ptr, layout), // not ours (harness block, or allocated before the run)
            Some(s) => {
                if !s.live {
                    let (a, z) = (s.addr, s.size);
                    st.error("double_free", a, z);
                    return;
                }
                let wrong = s.size != layout.size() || s.align != layout.align();
                s.live = false;
                let (base, total, size) = (s.base, s.total, s.size);
                std::ptr::write_bytes(base as *mut u8, POISON_FREED, total);
                if !quarantine {
                    // really free: the address may be handed out again (to anybody), so the slot
                    // must not linger as "dead"
                    let align = s.align;
                    *s = EMPTY;
                    s.addr = TOMBSTONE;
                    System.dealloc(base as *mut u8, Layout::from_size_align_unchecked(total, align));
                }
                st.live_blocks -= 1;
                st.live_bytes -= size as i64;
                if wrong {
                    st.error("free_with_wrong_layout", ptr as usize, size);
                }
            }
        }
    }

    unsafe fn realloc(&self, ptr: *mut u8, layout: Layout, new_size: usize) -> *mut u8 {
        if cfg!(miri) {
            return System.realloc(ptr, layout, new_size);
        }
        if let Some((base, total, align)) = take_carry(ptr as usize) {
            let np = System.alloc(Layout::from_size_align_unchecked(new_size, layout.align()));
            if !np.is_null() {
                std::ptr::copy_nonoverlapping(ptr, np, layout.size().min(new_size));
                System.dealloc(base as *mut u8, Layout::from_size_align_unchecked(total, align));
            }
            return np;
        }
        if !tracking() {
            return System.realloc(ptr, layout, new_size);
        }
        let st = state();
        let ours = st.find(ptr as usize).is_some();
        if !ours && !in_lib() {
            return System.realloc(ptr, layout, new_size);
        }
        // allocate-copy-free so that the old block is quarantined
        let new_layout = Layout::from_size_align_unchecked(new_size, layout.align());
        let np = self.alloc(new_layout);
        if !np.is_null() {
            std::ptr::copy_nonoverlapping(ptr, np, layout.size().min(new_size));
            self.dealloc(ptr, layout);
        }
        np
    }
}

/// padded block carried over from an earlier run?
fn take_carry(addr: usize) -> Option<(usize, usize, usize)> {
    let p = STATE.try_with(|s| s.get()).unwrap_or(std::ptr::null_mut());
    if p.is_null() {
        return None;
    }
    let st = unsafe { &mut *p };
    if st.n_carry == 0 {
        return None;
    }
    for i in 0..st.n_carry {
        if st.carry[i].addr == addr {
            let s = st.carry[i];
            st.carry[i] = st.carry[st.n_carry - 1];
            st.n_carry -= 1;
            return Some((s.base, s.total, s.align));
        }
    }
    None
}

// ---- control surface -------------------------------------------------------------------------

#[derive(Clone, Copy, Debug, PartialEq, Eq)]
pub struct AllocSpec {
    /// 0 = off (pass-through), 1 = track
    pub mode: u8,
    /// 0 = no padding; otherwise seeds the padding stream (address perturbation)
    pub pad_seed: u64,
    /// keep freed blocks until the end of the run
    pub quarantine: bool,
}
impl AllocSpec {
    pub const OFF: AllocSpec = AllocSpec {
        mode: 0,
        pad_seed: 0,
        quarantine: true,
    };
    pub const TRACK: AllocSpec = AllocSpec {
        mode: 1,
        pad_seed: 0,
        quarantine: true,
    };
}

pub fn forced_passthrough() -> bool {
    cfg!(miri) || std::env::var_os("CACHESIM_ALLOC_OFF").is_some()
}

pub struct RunAllocReport {
    pub errors: Vec<AllocError>,
    pub write_after_free: Vec<(usize, usize)>,
    pub leaked_blocks: i64,
    pub leaked_bytes: i64,
    pub total_allocs: u64,
    pub overflow: bool,
}

pub fn begin_run(spec: AllocSpec) {
    if spec.mode == 0 || forced_passthrough() {
        ACTIVE.with(|a| a.set(false));
        return;
    }
    let st = state();
    st.pad_state = spec.pad_seed;
    st.quarantine = spec.quarantine;
    st.overflow = false;
    st.live_blocks = 0;
    st.live_bytes = 0;
    st.total_allocs = 0;
    st.n_errors = 0;
    st.errors = [None; 8];
    debug_assert_eq!(st.used, 0);
    IN_LIB.with(|a| a.set(false));
    ACTIVE.with(|a| a.set(true));
}

pub fn is_active() -> bool {
    tracking()
}

/// live blocks / bytes currently attributed to the library
pub fn live() -> (i64, i64) {
    if !tracking() {
        return (0, 0);
    }
    let st = state();
    (st.live_blocks, st.live_bytes)
}

pub fn take_errors() -> Vec<AllocError> {
    if !tracking() {
        return Vec::new();
    }
    let st = state();
    let v: Vec<AllocError> = harness_scope(|| st.errors[..st.n_errors].iter().flatten().cloned().collect());
    st.n_errors = 0;
    v
}

/// exact liveness query used by the structural audit
pub fn is_live(addr: usize, size: usize) -> bool {
    if !tracking() {
        return true;
    }
    if addr == 0 {
        return false;
    }
    let st = state();
    match st.find(addr) {
        Some(s) => s.live && s.size == size,
        None => false,
    }
}

/// End of the run: verify quarantine poison, really free quarantined blocks, report leaks, and
/// forget everything. Must be called with every subject already dropped (or deliberately leaked).
pub fn end_run() -> RunAllocReport {
    if !tracking() {
        return RunAllocReport {
            errors: Vec::new(),
            write_after_free: Vec::new(),
            leaked_blocks: 0,
            leaked_bytes: 0,
            total_allocs: 0,
            overflow: false,
        };
    }
    ACTIVE.with(|a| a.set(false));
    IN_LIB.with(|a| a.set(false));
    let st = state();
    let mut waf = Vec::new();
    let mut errors = Vec::new();
    for e in st.errors[..st.n_errors].iter().flatten() {
        errors.push(*e);
    }
    unsafe {
        for j in 0..st.used {
            let i = *st.touched.add(j) as usize;
            let s = &mut *st.table.add(i);
            if s.addr == 0 {
                continue;
            }
            if s.addr == TOMBSTONE {
                *s = EMPTY;
                continue;
            }
            if !s.live && s.base != 0 {
                let bytes = std::slice::from_raw_parts(s.base as *const u8, s.total);
                if let Some(off) = bytes.iter().position(|b| *b != POISON_FREED) {
                    if waf.len() < 8 {
                        waf.push((s.addr, off));
                    }
                }
                System.dealloc(
                    s.base as *mut u8,
                    Layout::from_size_align_unchecked(s.total, s.align),
                );
            }
            if s.live && s.base != s.addr {
                // still live and padded: whoever owns it must be able to free it later
                if st.n_carry < st.carry.len() {
                    st.carry[st.n_carry] = *s;
                    st.n_carry += 1;
                }
            }
            // live unpadded blocks are simply forgotten: a later free passes through to System
            *s = EMPTY;
        }
    }
    let rep = RunAllocReport {
        errors,
        write_after_free: waf,
        leaked_blocks: st.live_blocks,
        leaked_bytes: st.live_bytes,
        total_allocs: st.total_allocs,
        overflow: st.overflow,
    };
    st.used = 0;
    st.n_errors = 0;
    rep
}

struct Restore(bool);
impl Drop for Restore {
    fn drop(&mut self) {
        let _ = IN_LIB.try_with(|a| a.set(self.0));
    }
}

/// run `f` as library code (allocations are attributed to the library)
#[inline]
pub fn lib_scope<R>(f: impl FnOnce() -> R) -> R {
    let prev = IN_LIB.with(|a| a.replace(true));
    let _g = Restore(prev);
    f()
}

/// run `f` as harness code (allocations are not tracked)
#[inline]
pub fn harness_scope<R>(f: impl FnOnce() -> R) -> R {
    let prev = IN_LIB.try_with(|a| a.replace(false)).unwrap_or(false);
    let _g = Restore(prev);
    f()
}
