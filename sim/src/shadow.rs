//! Shadow models for the two non-cache subjects: TinyLFU (C11, one-sided bound against exact
//! aged counts) and SampledLFU (C20, exact ledger).
use crate::alpha::Alpha;
use crate::ops::{Code, Op, Val};
use crate::subj::Subject;
use std::collections::{BTreeMap, BTreeSet};

#[derive(Clone, Debug, Default)]
pub struct TlfuShadow {
    pub door: BTreeSet<u64>,
    pub cnt: BTreeMap<u64, u8>,
    pub w: usize,
    pub samples: usize,
    /// hashes recorded since the last clear
    pub recorded: BTreeSet<u64>,
    /// every hash the run has ever mentioned (probe universe)
    pub universe: BTreeSet<u64>,
    pub resets: u64,
    pub just_reset: bool,
}

impl TlfuShadow {
    fn tick(&mut self) {
        self.w += 1;
        if self.w >= self.samples {
            self.w = 0;
            self.door.clear();
            for (_, c) in self.cnt.iter_mut() {
                *c /= 2;
            }
            self.resets += 1;
            self.just_reset = true;
        }
    }
    fn inc(&mut self, h: u64) {
        self.just_reset = false;
        self.universe.insert(h);
        self.recorded.insert(h);
        if !self.door.contains(&h) {
            self.door.insert(h);
        } else {
            let c = self.cnt.entry(h).or_insert(0);
            if *c < 15 {
                *c += 1;
            }
        }
        self.tick();
    }
    /// canonical shape of the shadow state (for the distinct-states measure)
    pub fn shape(&self) -> u64 {
        let mut h = crate::rng::mix(self.w as u64, self.samples as u64);
        h = crate::rng::mix(h, self.door.len() as u64);
        let mut cs: Vec<u8> = self.cnt.values().copied().filter(|c| *c > 0).collect();
        cs.sort_unstable();
        for c in cs {
            h = crate::rng::mix(h, c as u64);
        }
        h
    }
    pub fn lower(&self, h: u64) -> u64 {
        (self.door.contains(&h) as u64) + (*self.cnt.get(&h).unwrap_or(&0) as u64)
    }

    /// apply the event to the shadow and check the real object; returns (oracle id, detail)
    pub fn step(&mut self, subj: &mut dyn Subject, op: &Op, val: &Val, post: &Alpha, stats: &mut crate::exec::Stats) -> Vec<(&'static str, String)> {
        let mut errs: Vec<(&'static str, String)> = Vec::new();
        self.just_reset = false;
        let mut cleared = false;
        let kh = |s: &dyn Subject, k: u32| s.key_hash(k).unwrap_or(0);
        use Code::*;
        // estimates are read-only: a comparison / estimate event is judged against the real
        // estimates of the same (unchanged) state
        let est = |s: &mut dyn Subject, h: u64| -> i64 {
            match s.apply(&Op::new(TEst).v(h)) {
                Val::Num(n) => n,
                _ => -1,
            }
        };
        match op.code {
            TInc => self.inc(op.v),
            TIncKey => {
                let h = kh(subj, op.k);
                self.inc(h)
            }
            TIncHashes => {
                for h in &op.xs {
                    self.inc(*h)
                }
            }
            TIncKeys => {
                for k in &op.xs {
                    let h = kh(subj, *k as u32);
                    self.inc(h)
                }
            }
            TTryReset => self.tick(),
            TClear => {
                self.door.clear();
                self.cnt.clear();
                self.w = 0;
                self.recorded.clear();
                cleared = true;
            }
            TEst | TEstKey => {
                let h = if op.code == TEst { op.v } else { kh(subj, op.k) };
                self.universe.insert(h);
                let other = est(subj, h);
                if let Val::Num(n) = val {
                    if *n != other {
                        errs.push(("estimate_inconsistent", format!("estimate returned {} but estimate_hashed_key({:#x}) returns {}", n, h, other)));
                    }
                }
            }
            TContains | TContainsKey => {
                let h = if op.code == TContains { op.v } else { kh(subj, op.k) };
                self.universe.insert(h);
                if let Val::Bool(b) = val {
                    if self.door.contains(&h) && !*b {
                        errs.push(("doorkeeper_false_negative", format!("contains({:#x}) is false although the key was recorded since the last reset", h)));
                    }
                }
            }
            TCmp => {
                let (ha, hb) = (kh(subj, op.k), kh(subj, op.k2));
                self.universe.insert(ha);
                self.universe.insert(hb);
                let (ea, eb) = (est(subj, ha), est(subj, hb));
                let want = match op.fam {
                    0 => ea == eb,
                    1 => ea <= eb,
                    2 => ea < eb,
                    3 => ea > eb,
                    _ => ea >= eb,
                };
                stats.bump("tlfu_cmp_checked");
                if ea != eb {
                    stats.bump("tlfu_cmp_distinct_estimates");
                }
                if let Val::Bool(b) = val {
                    if *b != want {
                        let name = ["eq", "le", "lt", "gt", "ge"][(op.fam as usize).min(4)];
                        errs.push((
                            "comparison_disagrees_with_estimates",
                            format!("{}(k{},k{}) returned {} but the estimates are {} and {}", name, op.k, op.k2, b, ea, eb),
                        ));
                    }
                }
            }
            _ => {}
        }
        if self.just_reset {
            stats.bump("tlfu_resets");
        }
        // window position must agree (reset exactly on schedule)
        if let Some(e) = &post.est {
            if e.w != self.w {
                errs.push((
                    "reset_schedule",
                    format!("after {} the estimator's window counter is {} but {} accesses/ticks were recorded since the last reset (sample size {})", op.code.name(), e.w, self.w, self.samples),
                ));
                // resynchronise so that one finding does not repeat on every later step
                self.w = e.w;
            }
        }
        // probe every hash of the universe
        let single = self.recorded.len() == 1;
        let hs: Vec<u64> = self.universe.iter().copied().collect();
        for h in hs {
            let e = est(subj, h);
            let lo = self.lower(h) as i64;
            if e < lo {
                errs.push(("under_count", format!("estimate({:#x}) = {} is below the exact aged count {}", h, e, lo)));
            }
            if e > 16 {
                errs.push(("over_16", format!("estimate({:#x}) = {} exceeds 16", h, e)));
            }
            if lo >= 16 {
                stats.bump("tlfu_saturated");
            }
            if single && self.recorded.contains(&h) && e != lo {
                errs.push(("single_key_inexact", format!("only {:#x} was ever recorded but estimate = {} and exact count = {}", h, e, lo)));
            }
            let c = matches!(subj.apply(&Op::new(TContains).v(h)), Val::Bool(true));
            if self.door.contains(&h) && !c {
                errs.push(("doorkeeper_false_negative", format!("contains({:#x}) is false although the key was recorded since the last reset", h)));
            }
            if (self.just_reset || cleared) && c {
                errs.push(("doorkeeper_not_cleared", format!("contains({:#x}) is true right after a {}", h, if cleared { "clear" } else { "reset" })));
            }
            if cleared && e != 0 {
                errs.push(("clear_leaves_counts", format!("estimate({:#x}) = {} right after clear", h, e)));
            }
        }
        if single {
            stats.bump("tlfu_single_key_states");
        }
        errs
    }
}

#[derive(Clone, Debug, Default)]
pub struct SampledShadow {
    pub costs: BTreeMap<u64, i64>,
    pub max: i64,
    pub samples: usize,
}

impl SampledShadow {
    pub fn shape(&self) -> u64 {
        let sum: i64 = self.costs.values().sum();
        let mut h = crate::rng::mix(self.costs.len() as u64, self.samples as u64);
        h = crate::rng::mix(h, sum.signum() as u64);
        h = crate::rng::mix(h, self.costs.values().filter(|c| **c < 0).count() as u64);
        h
    }
    pub fn step(&mut self, subj: &mut dyn Subject, op: &Op, val: &Val, post: &Alpha, stats: &mut crate::exec::Stats) -> Vec<(&'static str, String)> {
        let mut errs: Vec<(&'static str, String)> = Vec::new();
        let kh = |s: &dyn Subject, k: u32| s.key_hash(k).unwrap_or(0);
        use Code::*;
        match op.code {
            SInc | SIncH => {
                let h = if op.code == SInc { kh(subj, op.k) } else { op.v };
                if self.costs.contains_key(&h) {
                    stats.bump("sampled_increment_on_tracked");
                }
                self.costs.insert(h, op.n);
            }
            SUpd | SUpdH => {
                let h = if op.code == SUpd { kh(subj, op.k) } else { op.v };
                let tracked = self.costs.contains_key(&h);
                if tracked {
                    self.costs.insert(h, op.n);
                }
                if *val != Val::Bool(tracked) {
                    errs.push(("update_result", format!("update({:#x}) returned {} but tracked = {}", h, val.show(), tracked)));
                }
            }
            SRem | SRemH => {
                let h = if op.code == SRem { kh(subj, op.k) } else { op.v };
                let want = match self.costs.remove(&h) {
                    Some(c) => Val::Num(c),
                    None => Val::None,
                };
                if *val != want {
                    errs.push(("remove_result", format!("remove({:#x}) returned {} but the ledger says {}", h, val.show(), want.show())));
                }
            }
            SClear => self.costs.clear(),
            SMax => self.max = op.n,
            SRoom => {
                let sum: i64 = self.costs.values().sum();
                let want = self.max - sum - op.n;
                if *val != Val::Num(want) {
                    errs.push(("room_left", format!("room_left({}) returned {} but max_cost {} - recorded {} - {} = {}", op.n, val.show(), self.max, sum, op.n, want)));
                }
            }
            SFill => {
                let input: Vec<(u64, i64)> = op.xs.chunks(2).filter(|c| c.len() == 2).map(|c| (c[0], c[1] as i64)).collect();
                let out: Vec<(u64, i64)> = match val {
                    Val::List(xs) => xs
                        .iter()
                        .filter_map(|p| match p {
                            Val::Pair(a, b) => match (&**a, &**b) {
                                (Val::Num(k), Val::Num(c)) => Some((*k as u64, *c)),
                                _ => None,
                            },
                            _ => None,
                        })
                        .collect(),
                    _ => Vec::new(),
                };
                let bad = |d: String| ("fill_sample", d);
                if out.len() < input.len() || out[..input.len()] != input[..] {
                    errs.push(bad(format!("fill_sample output {:?} does not start with its input {:?}", out, input)));
                } else if input.len() >= self.samples {
                    stats.bump("sampled_fill_input_long");
                    if out.len() != input.len() {
                        errs.push(bad("input at least as long as the sample size must be returned unchanged".into()));
                    }
                } else {
                    let want_len = std::cmp::min(self.samples, input.len() + self.costs.len());
                    if out.len() != want_len {
                        errs.push(bad(format!("fill_sample returned {} pairs, expected {} (sample size {}, input {}, tracked {})", out.len(), want_len, self.samples, input.len(), self.costs.len())));
                    }
                    let mut seen = BTreeSet::new();
                    for (k, c) in &out[input.len()..] {
                        if self.costs.get(k) != Some(c) {
                            errs.push(bad(format!("fill_sample added ({:#x},{}) which is not a tracked pair", k, c)));
                        }
                        if !seen.insert(*k) {
                            errs.push(bad(format!("fill_sample added key {:#x} twice", k)));
                        }
                    }
                    if want_len == self.samples && !self.costs.is_empty() {
                        stats.bump("sampled_fill_reaches_sample_size");
                    }
                }
            }
            _ => {}
        }
        // ledger vs real state
        if let Some(st) = &post.sampled {
            let want: Vec<(u64, i64)> = self.costs.iter().map(|(k, v)| (*k, *v)).collect();
            if st.key_costs != want {
                errs.push(("tracked_set", format!("tracked pairs are {:?} but the ledger says {:?}", st.key_costs, want)));
            }
            if st.max_cost != self.max {
                errs.push(("max_cost", format!("max_cost is {} but {} was set", st.max_cost, self.max)));
            }
        }
        // room_left(0) after every event (read-only)
        let sum: i64 = self.costs.values().sum();
        match subj.apply(&Op::new(SRoom).n(0)) {
            Val::Num(r) if r == self.max - sum => {}
            other => errs.push((
                "room_left",
                format!("after {} room_left(0) = {} but max_cost {} - recorded costs {} = {}", op.code.name(), other.show(), self.max, sum, self.max - sum),
            )),
        }
        errs
    }
}
