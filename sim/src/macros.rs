//! macros used by the subject drivers (must be declared before the modules that use them)

#[macro_export]
macro_rules! lib {
    ($e:expr) => {
        $crate::alloc::lib_scope(|| $e)
    };
}


/// lookup by the borrowed form or by an owned probe key: `lookup!(K, op, c.get, |r| conv(r))`
#[macro_export]
macro_rules! lookup {
    ($K:ty, $op:expr, $c:ident . $m:ident, |$r:ident| $post:expr) => {{
        if $op.owned {
            let probe = <$K as $crate::keys::SimKey>::make($op.k);
            let out = {
                let $r = $crate::alloc::lib_scope(|| $c.$m::<$K>(&probe));
                $post
            };
            $crate::alloc::harness_scope(move || drop(probe));
            out
        } else {
            <$K as $crate::keys::SimKey>::with_q($op.k, |q| {
                let $r = $crate::alloc::lib_scope(|| $c.$m::<<$K as $crate::keys::SimKey>::Q>(q));
                $post
            })
        }
    }};
}

/// drive one iterator family of a RawLRU-like accessor set
#[macro_export]
macro_rules! iter_fams {
    ($K:ty, $op:expr,
     $iter:expr, $iter_lru:expr, $iter_mut:expr, $iter_lru_mut:expr,
     $keys:expr, $keys_lru:expr, $values:expr, $values_lru:expr,
     $values_mut:expr, $values_lru_mut:expr) => {{
        let op: &$crate::ops::Op = $op;
        let word = &op.xs[..];
        let clone_at = op.n;
        let mut wnext = op.w;
        let mut wr = |v: &mut $crate::keys::TV| {
            let old = v.read();
            if wnext != 0 {
                v.val = wnext;
                wnext += 1;
            }
            old
        };
        match op.fam {
            0 => {
                let it = $crate::lib!($iter);
                $crate::subj::drive_iter(it, word, clone_at, $crate::subj::lru::kv_conv::<$K>, Some(&|i| i.clone()))
            }
            1 => {
                let it = $crate::lib!($iter_lru);
                $crate::subj::drive_iter(it, word, clone_at, $crate::subj::lru::kv_conv::<$K>, Some(&|i| i.clone()))
            }
            2 => {
                let it = $crate::lib!($iter_mut);
                $crate::subj::drive_iter(
                    it,
                    word,
                    -1,
                    |(k, v): (&$K, &mut $crate::keys::TV)| {
                        let old = wr(v);
                        $crate::ops::Val::KV(<$K as $crate::keys::SimKey>::ident_checked(k, "key (yielded by iterator)"), old)
                    },
                    None,
                )
            }
            3 => {
                let it = $crate::lib!($iter_lru_mut);
                $crate::subj::drive_iter(
                    it,
                    word,
                    -1,
                    |(k, v): (&$K, &mut $crate::keys::TV)| {
                        let old = wr(v);
                        $crate::ops::Val::KV(<$K as $crate::keys::SimKey>::ident_checked(k, "key (yielded by iterator)"), old)
                    },
                    None,
                )
            }
            4 => {
                let it = $crate::lib!($keys);
                $crate::subj::drive_iter(
                    it,
                    word,
                    clone_at,
                    |k: &$K| $crate::ops::Val::Num(<$K as $crate::keys::SimKey>::ident_checked(k, "key (yielded by iterator)") as i64),
                    Some(&|i| i.clone()),
                )
            }
            5 => {
                let it = $crate::lib!($keys_lru);
                $crate::subj::drive_iter(
                    it,
                    word,
                    clone_at,
                    |k: &$K| $crate::ops::Val::Num(<$K as $crate::keys::SimKey>::ident_checked(k, "key (yielded by iterator)") as i64),
                    Some(&|i| i.clone()),
                )
            }
            6 => {
                let it = $crate::lib!($values);
                $crate::subj::drive_iter(it, word, clone_at, |v: &$crate::keys::TV| $crate::ops::Val::V(v.read()), Some(&|i| i.clone()))
            }
            7 => {
                let it = $crate::lib!($values_lru);
                $crate::subj::drive_iter(it, word, clone_at, |v: &$crate::keys::TV| $crate::ops::Val::V(v.read()), Some(&|i| i.clone()))
            }
            8 => {
                let it = $crate::lib!($values_mut);
                $crate::subj::drive_iter(it, word, -1, |v: &mut $crate::keys::TV| $crate::ops::Val::V(wr(v)), None)
            }
            9 => {
                let it = $crate::lib!($values_lru_mut);
                $crate::subj::drive_iter(it, word, -1, |v: &mut $crate::keys::TV| $crate::ops::Val::V(wr(v)), None)
            }
            _ => $crate::ops::Val::Unsupported,
        }
    }};
}

