//! WTinyLFU(cw, cp, cq, W, P, Q, E): DESIGN §5. lists = [W, P (probationary), Q (protected)],
//! scalars = [cw, cp, cq]. The admission verdict is read from the real estimator (ctx.est).
use super::slru::{slru_get, slru_put};
use super::*;

pub fn step(s: &MState, op: &Op, ctx: &Ctx) -> Option<Vec<Expect>> {
    let (cw, cp, cq) = (s.scalars[0] as usize, s.scalars[1] as usize, s.scalars[2] as usize);
    let (w, p, q) = (&s.lists[0], &s.lists[1], &s.lists[2]);
    let mut post = s.clone();
    let one = |val: Val, post: MState, b: &'static str| Some(vec![Expect::new(val, post, b)]);
    use Code::*;
    match op.code {
        Put => {
            let (k, v) = (op.k, op.v);
            if let Some(i) = w.iter().position(|e| e.0 == k) {
                let old = post.lists[0].remove(i).1;
                let mut tag = "put_window_hit";
                if q.len() >= cq {
                    if let Some(d) = post.lists[2].pop() {
                        post.lists[0].insert(0, d);
                        tag = "put_window_hit_protected_full";
                    }
                }
                post.lists[2].insert(0, (k, v));
                return one(Val::Put(PutRes::Update(old)), post, tag);
            }
            if p.iter().any(|e| e.0 == k) || q.iter().any(|e| e.0 == k) {
                let r = slru_put(&mut post, 1, 2, cp, cq, k, v);
                return one(Val::Put(r), post, "put_main_hit");
            }
            match lru_put(&mut post.lists[0], cw, k, v) {
                PutRes::Evicted(ck, cv) => {
                    if p.len() + q.len() < cp + cq {
                        let r = slru_put(&mut post, 1, 2, cp, cq, ck, cv);
                        let tag = if matches!(r, PutRes::Evicted(..)) {
                            "put_new_candidate_admitted_free_probationary_evicts"
                        } else {
                            "put_new_candidate_admitted_free"
                        };
                        one(Val::Put(r), post, tag)
                    } else {
                        match p.last().copied() {
                            None => {
                                let r = slru_put(&mut post, 1, 2, cp, cq, ck, cv);
                                one(Val::Put(r), post, "put_new_main_full_no_victim")
                            }
                            Some(u) => {
                                let ec = (ctx.est)(ck);
                                let eu = (ctx.est)(u.0);
                                if ec < eu {
                                    one(Val::Put(PutRes::Evicted(ck, cv)), post, "put_new_candidate_rejected")
                                } else {
                                    let r = slru_put(&mut post, 1, 2, cp, cq, ck, cv);
                                    let tag = if ec == eu {
                                        "put_new_candidate_admitted_tie"
                                    } else {
                                        "put_new_candidate_admitted_higher"
                                    };
                                    one(Val::Put(r), post, tag)
                                }
                            }
                        }
                    }
                }
                r => one(Val::Put(r), post, "put_new_window_has_room"),
            }
        }
        Get | GetMut => {
            let wr = if op.code == GetMut { op.w } else { 0 };
            let (val, tag) = if let Some(old) = touch(&mut post.lists[0], op.k) {
                if wr != 0 {
                    post.lists[0][0].1 = wr;
                }
                (Val::V(old), "get_window")
            } else {
                match slru_get(&mut post, 1, 2, cq, op.k, wr) {
                    Some(old) => (Val::V(old), "get_main"),
                    None => (Val::None, "get_miss"),
                }
            };
            Some(vec![Expect::new(val, post, tag).est(EstEffect::Access(op.k))])
        }
        Peek | PeekMut | Contains => {
            let f = s.find(op.k);
            if let (Some((l, i)), true) = (f, op.code == PeekMut && op.w != 0) {
                post.lists[l][i].1 = op.w;
            }
            let val = match op.code {
                Contains => Val::Bool(f.is_some()),
                _ => some_v(f.map(|(l, i)| s.lists[l][i].1)),
            };
            one(val, post, "peek")
        }
        Remove => {
            let r = s.find(op.k).map(|(l, i)| post.lists[l].remove(i).1);
            one(some_v(r), post, "remove")
        }
        Purge => {
            for l in post.lists.iter_mut() {
                l.clear();
            }
            Some(vec![Expect::new(Val::Unit, post, "purge").est(EstEffect::Cleared)])
        }
        Len => one(Val::Num((w.len() + p.len() + q.len()) as i64), post, "len"),
        Cap => one(Val::Num((cw + cp + cq) as i64), post, "cap"),
        IsEmpty => one(Val::Bool(w.is_empty() && p.is_empty() && q.is_empty()), post, "is_empty"),
        ListLen => one(
            Val::Num(if op.list == 0 { w.len() } else { p.len() + q.len() } as i64),
            post,
            "list_len",
        ),
        ListCap => one(Val::Num(if op.list == 0 { cw } else { cp + cq } as i64), post, "list_cap"),
        Rehash => one(Val::Unit, post, "noop"),
        _ => None,
    }
}
