//! Reference models as transition relations on the *observed* abstract state:
//! `step(pre, op)` returns the set of admissible (result, post-state) pairs.
use crate::alpha::{Alpha, Kind};
use crate::ops::{Code, Op, PutRes, Val};

pub mod arc;
pub mod lru;
pub mod slru;
pub mod twoq;
pub mod wtlfu;

pub type L = Vec<(u32, u64)>;

#[derive(Clone, Debug, PartialEq)]
pub struct MState {
    pub scalars: Vec<i64>,
    pub caps: Vec<usize>,
    /// MRU -> LRU
    pub lists: Vec<L>,
}

impl MState {
    pub fn of(a: &Alpha) -> MState {
        MState {
            scalars: a.scalars.clone(),
            caps: a.lists.iter().map(|l| l.cap).collect(),
            lists: a.lists.iter().map(|l| l.kv()).collect(),
        }
    }
    pub fn find(&self, k: u32) -> Option<(usize, usize)> {
        for (li, l) in self.lists.iter().enumerate() {
            if let Some(p) = l.iter().position(|e| e.0 == k) {
                return Some((li, p));
            }
        }
        None
    }
    pub fn show(&self) -> String {
        format!("{:?} {:?}", self.scalars, self.lists)
    }
}

/// estimator effect expected of an operation (W-TinyLFU)
#[derive(Clone, Debug, PartialEq)]
pub enum EstEffect {
    Untouched,
    /// one recorded access for this key (L6: with the window tick before or after, or not at all)
    Access(u32),
    Cleared,
}

#[derive(Clone, Debug)]
pub struct Expect {
    pub val: Val,
    pub post: MState,
    pub est: EstEffect,
    /// ghost lists (indices) compared leniently (L5): observed must be an order-preserving
    /// sub-list of the expectation that keeps the front entry and respects the bound
    pub lenient_ghosts: Vec<usize>,
    /// 2Q/ARC `remove` of a ghost-only key (L3) etc: free-text tag of the branch taken
    pub branch: &'static str,
    /// (list index, entry) that must sit at the most-recent end of that (lenient) ghost list:
    /// the victim of a ghost-hit put, which nothing allows to be forgotten at once
    pub front_required: Vec<(usize, (u32, u64))>,
}

impl Expect {
    pub fn new(val: Val, post: MState, branch: &'static str) -> Expect {
        Expect {
            val,
            post,
            est: EstEffect::Untouched,
            lenient_ghosts: Vec::new(),
            branch,
            front_required: Vec::new(),
        }
    }
    pub fn est(mut self, e: EstEffect) -> Self {
        self.est = e;
        self
    }
}

/// both ends of a long list (messages only)
fn sl(l: &L) -> String {
    if l.len() > 24 {
        format!("{:?}..({} more)..{:?}", &l[..8], l.len() - 16, &l[l.len() - 8..])
    } else {
        format!("{:?}", l)
    }
}

fn is_sublist_keep_front(obs: &L, exp: &L) -> bool {
    // obs must be a subsequence of exp
    let mut j = 0;
    for e in obs {
        while j < exp.len() && exp[j] != *e {
            j += 1;
        }
        if j == exp.len() {
            return false;
        }
        j += 1;
    }
    true
}

/// does the observed (result, post-state) match this expectation?
pub fn matches(e: &Expect, val: &Val, post: &MState, front_required: &[(usize, (u32, u64))]) -> Result<(), String> {
    if &e.val != val {
        return Err(format!("result {} but the model expects {}", val.show(), e.val.show()));
    }
    if e.post.scalars != post.scalars {
        return Err(format!(
            "scalars {:?} but the model expects {:?}",
            post.scalars, e.post.scalars
        ));
    }
    if e.post.caps != post.caps {
        return Err(format!("list capacities {:?} but the model expects {:?}", post.caps, e.post.caps));
    }
    for (i, (exp, obs)) in e.post.lists.iter().zip(post.lists.iter()).enumerate() {
        if e.lenient_ghosts.contains(&i) {
            if !is_sublist_keep_front(obs, exp) {
                return Err(format!(
                    "ghost list #{} is {}, not an order-preserving sub-list of the expected {}",
                    i,
                    sl(obs),
                    sl(exp)
                ));
            }
            for (li, ent) in front_required.iter().chain(e.front_required.iter()) {
                if *li == i && obs.first() != Some(ent) {
                    return Err(format!(
                        "ghost list #{} is {} but the entry just evicted into it {:?} must be at its most-recent end",
                        i,
                        sl(obs),
                        ent
                    ));
                }
            }
        } else if exp != obs {
            return Err(format!("list #{} is {} but the model expects {}", i, sl(obs), sl(exp)));
        }
    }
    Ok(())
}

pub struct Ctx<'a> {
    /// frequency estimate of a key read from the real estimator in the pre-state
    pub est: &'a dyn Fn(u32) -> u64,
}

/// The admissible outcomes of `op` in state `pre`. `None` = this operation is not described by
/// the policy model of this subject (nothing is checked).
pub fn step(kind: Kind, pre: &Alpha, op: &Op, ctx: &Ctx) -> Option<Vec<Expect>> {
    let s = MState::of(pre);
    match kind {
        Kind::Lru => lru::step(&s, op),
        Kind::Slru => slru::step(&s, op),
        Kind::TwoQ => twoq::step(&s, op),
        Kind::Arc => arc::step(&s, op),
        Kind::Wtlfu => wtlfu::step(&s, op, ctx),
        _ => None,
    }
}

// ---- helpers shared by the policy models -----------------------------------------------------

pub fn some_v(o: Option<u64>) -> Val {
    match o {
        Some(v) => Val::V(v),
        None => Val::None,
    }
}
pub fn some_kv(o: Option<(u32, u64)>) -> Val {
    match o {
        Some((k, v)) => Val::KV(k, v),
        None => Val::None,
    }
}

/// plain LRU list operations on (cap, list); returns the evicted entry if any
pub fn lru_put(l: &mut L, cap: usize, k: u32, v: u64) -> PutRes {
    if let Some(p) = l.iter().position(|e| e.0 == k) {
        let old = l.remove(p).1;
        l.insert(0, (k, v));
        return PutRes::Update(old);
    }
    if cap == 0 {
        return PutRes::Evicted(k, v);
    }
    if l.len() >= cap {
        let ev = l.pop().unwrap();
        l.insert(0, (k, v));
        PutRes::Evicted(ev.0, ev.1)
    } else {
        l.insert(0, (k, v));
        PutRes::Put
    }
}

pub fn touch(l: &mut L, k: u32) -> Option<u64> {
    let p = l.iter().position(|e| e.0 == k)?;
    let e = l.remove(p);
    l.insert(0, e);
    Some(e.1)
}

/// expected result of an iterator event over list `l` (MRU->LRU), and the post list (writes)
pub fn iter_expect(l: &L, op: &Op) -> (Val, L) {
    let fam = op.fam;
    let lru_order = matches!(fam, 1 | 3 | 5 | 7 | 9);
    let mutable = matches!(fam, 2 | 3 | 8 | 9 | 11);
    let proj = |e: (u32, u64)| -> Val {
        match fam {
            4 | 5 => Val::Num(e.0 as i64),
            6..=9 => Val::V(e.1),
            _ => Val::KV(e.0, e.1),
        }
    };
    // sequence of positions in `l` in iteration order
    let n = l.len();
    let order: Vec<usize> = if lru_order { (0..n).rev().collect() } else { (0..n).collect() };
    let mut post = l.clone();
    let mut front = 0usize;
    let mut back = n;
    let mut out = vec![Val::Num(n as i64)];
    let mut wnext = op.w;
    let clone_at = if mutable { -1 } else { op.n };
    let mut clone_range: Option<(usize, usize)> = None;
    for (i, w) in op.xs.iter().enumerate() {
        if clone_at == i as i64 {
            clone_range = Some((front, back));
        }
        let item = if front < back {
            let pos = if *w == 0 {
                front += 1;
                order[front - 1]
            } else {
                back -= 1;
                order[back]
            };
            let e = l[pos];
            if mutable && wnext != 0 {
                post[pos].1 = wnext;
                wnext += 1;
            }
            proj(e)
        } else {
            Val::None
        };
        out.push(Val::Pair(Box::new(item), Box::new(Val::Num((back - front) as i64))));
    }
    if let Some((f, b)) = clone_range {
        out.push(Val::Str("clone".into()));
        out.push(Val::Num((b - f) as i64));
        // the clone is drained from both ends alternately, back first
        let (mut lo, mut hi) = (f, b);
        let mut items = Vec::new();
        let mut back = true;
        while lo < hi {
            if back {
                hi -= 1;
                items.push(proj(l[order[hi]]));
            } else {
                items.push(proj(l[order[lo]]));
                lo += 1;
            }
            back = !back;
        }
        out.push(Val::List(items));
    }
    (Val::List(out), post)
}

pub fn is_mut_code(c: Code) -> bool {
    matches!(
        c,
        Code::GetMut
            | Code::PeekMut
            | Code::GetLruMut
            | Code::GetMruMut
            | Code::PeekLruMut
            | Code::PeekMruMut
            | Code::PeekMutOrPut
            | Code::SegPeekLruMut
            | Code::SegPeekMruMut
    )
}
