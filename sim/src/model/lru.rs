//! LRU(cap, L): DESIGN §5.
use super::*;

pub fn step(s: &MState, op: &Op) -> Option<Vec<Expect>> {
    let cap = s.scalars[0] as usize;
    let l0 = &s.lists[0];
    let mut post = s.clone();
    let one = |val: Val, post: MState, b: &'static str| Some(vec![Expect::new(val, post, b)]);
    use Code::*;
    match op.code {
        Put => {
            let r = lru_put(&mut post.lists[0], cap, op.k, op.v);
            one(Val::Put(r), post, "put")
        }
        Get => {
            let r = touch(&mut post.lists[0], op.k);
            one(some_v(r), post, "get")
        }
        GetMut => {
            let r = touch(&mut post.lists[0], op.k);
            if r.is_some() && op.w != 0 {
                post.lists[0][0].1 = op.w;
            }
            one(some_v(r), post, "get_mut")
        }
        Peek => one(some_v(l0.iter().find(|e| e.0 == op.k).map(|e| e.1)), post, "peek"),
        PeekMut => {
            let p = l0.iter().position(|e| e.0 == op.k);
            if let (Some(p), true) = (p, op.w != 0) {
                post.lists[0][p].1 = op.w;
            }
            one(some_v(p.map(|p| l0[p].1)), post, "peek_mut")
        }
        Contains => one(Val::Bool(l0.iter().any(|e| e.0 == op.k)), post, "contains"),
        Remove => {
            let p = l0.iter().position(|e| e.0 == op.k);
            let r = p.map(|p| post.lists[0].remove(p).1);
            one(some_v(r), post, "remove")
        }
        Purge => {
            post.lists[0].clear();
            one(Val::Unit, post, "purge")
        }
        Len | ListLen => one(Val::Num(l0.len() as i64), post, "len"),
        Cap | ListCap => one(Val::Num(cap as i64), post, "cap"),
        IsEmpty => one(Val::Bool(l0.is_empty()), post, "is_empty"),
        Resize => {
            let n = crate::ops::resize_arg(op.n);
            let mut evicted = 0i64;
            while post.lists[0].len() > n {
                post.lists[0].pop();
                evicted += 1;
            }
            post.scalars[0] = n as i64;
            post.caps[0] = n;
            one(Val::Num(evicted), post, "resize")
        }
        GetLru | GetLruMut => {
            let r = post.lists[0].pop();
            if let Some(e) = r {
                let w = if op.code == GetLruMut && op.w != 0 { op.w } else { e.1 };
                post.lists[0].insert(0, (e.0, w));
            }
            one(some_kv(r), post, "get_lru")
        }
        GetMru | PeekMru => one(some_kv(l0.first().copied()), post, "mru"),
        GetMruMut | PeekMruMut => {
            if op.w != 0 && !l0.is_empty() {
                post.lists[0][0].1 = op.w;
            }
            one(some_kv(l0.first().copied()), post, "mru_mut")
        }
        PeekLru => one(some_kv(l0.last().copied()), post, "peek_lru"),
        PeekLruMut => {
            if op.w != 0 && !l0.is_empty() {
                let n = l0.len();
                post.lists[0][n - 1].1 = op.w;
            }
            one(some_kv(l0.last().copied()), post, "peek_lru_mut")
        }
        PeekOrPut | PeekMutOrPut | ContainsOrPut => {
            let hit = l0.iter().position(|e| e.0 == op.k);
            let first = match (op.code, hit) {
                (ContainsOrPut, h) => Val::Bool(h.is_some()),
                (_, Some(p)) => Val::V(l0[p].1),
                (_, None) => Val::None,
            };
            let second = match hit {
                Some(p) => {
                    if op.code == PeekMutOrPut && op.w != 0 {
                        post.lists[0][p].1 = op.w;
                    }
                    Val::None
                }
                None => Val::Put(lru_put(&mut post.lists[0], cap, op.k, op.v)),
            };
            one(Val::Pair(Box::new(first), Box::new(second)), post, "x_or_put")
        }
        RemoveLru => {
            let r = post.lists[0].pop();
            one(some_kv(r), post, "remove_lru")
        }
        Debug | Rehash => one(Val::Unit, post, "noop"),
        Iter => {
            let (v, l) = iter_expect(l0, op);
            post.lists[0] = l;
            one(v, post, "iter")
        }
        _ => None,
    }
}
