//! SLRU(cp, cq, P, Q): DESIGN §5. lists = [P (probationary), Q (protected)], scalars = [cp, cq].
use super::*;

/// promotion of the entry at position `p` of P to the front of Q (with value `v`), demoting Q's
/// least recent entry to the front of P when Q is full
pub fn promote(post: &mut MState, pi: usize, qi: usize, p: usize, v: u64, cq: usize) {
    let e = post.lists[pi].remove(p);
    if post.lists[qi].len() >= cq {
        if let Some(d) = post.lists[qi].pop() {
            post.lists[pi].insert(0, d);
        }
    }
    post.lists[qi].insert(0, (e.0, v));
}

/// SLRU put on lists (pi, qi) of `post`
pub fn slru_put(post: &mut MState, pi: usize, qi: usize, cp: usize, cq: usize, k: u32, v: u64) -> PutRes {
    if let Some(p) = post.lists[qi].iter().position(|e| e.0 == k) {
        let old = post.lists[qi].remove(p).1;
        post.lists[qi].insert(0, (k, v));
        return PutRes::Update(old);
    }
    if let Some(p) = post.lists[pi].iter().position(|e| e.0 == k) {
        let old = post.lists[pi][p].1;
        promote(post, pi, qi, p, v, cq);
        return PutRes::Update(old);
    }
    lru_put(&mut post.lists[pi], cp, k, v)
}

/// SLRU get on lists (pi, qi): returns the value before an optional write `w`
pub fn slru_get(post: &mut MState, pi: usize, qi: usize, cq: usize, k: u32, w: u64) -> Option<u64> {
    if let Some(old) = touch(&mut post.lists[qi], k) {
        if w != 0 {
            post.lists[qi][0].1 = w;
        }
        return Some(old);
    }
    if let Some(p) = post.lists[pi].iter().position(|e| e.0 == k) {
        let old = post.lists[pi][p].1;
        promote(post, pi, qi, p, if w != 0 { w } else { old }, cq);
        return Some(old);
    }
    None
}

pub fn step(s: &MState, op: &Op) -> Option<Vec<Expect>> {
    let (cp, cq) = (s.scalars[0] as usize, s.scalars[1] as usize);
    let (p, q) = (&s.lists[0], &s.lists[1]);
    let mut post = s.clone();
    let one = |val: Val, post: MState, b: &'static str| Some(vec![Expect::new(val, post, b)]);
    let find = |k: u32| -> Option<(usize, usize)> { s.find(k) };
    use Code::*;
    match op.code {
        Put => {
            let b = match find(op.k) {
                Some((1, _)) => "put_protected_hit",
                Some((_, _)) => {
                    if q.len() >= cq {
                        "put_probationary_hit_protected_full"
                    } else {
                        "put_probationary_hit"
                    }
                }
                None => {
                    if p.len() >= cp {
                        "put_new_probationary_full"
                    } else {
                        "put_new"
                    }
                }
            };
            let r = slru_put(&mut post, 0, 1, cp, cq, op.k, op.v);
            one(Val::Put(r), post, b)
        }
        PutProtected => {
            let mut out = Vec::new();
            match find(op.k) {
                Some((1, pos)) => {
                    let old = post.lists[1].remove(pos).1;
                    post.lists[1].insert(0, (op.k, op.v));
                    out.push(Expect::new(Val::Put(PutRes::Update(old)), post, "put_protected_on_protected"));
                }
                Some((_, pos)) => {
                    let old = post.lists[0].remove(pos).1;
                    if q.len() < cq {
                        post.lists[1].insert(0, (op.k, op.v));
                        out.push(Expect::new(Val::Put(PutRes::Update(old)), post, "put_protected_on_probationary"));
                    } else {
                        // L7: evict or demote protected's least recent entry
                        let mut a = post.clone();
                        let ev = a.lists[1].pop().unwrap();
                        a.lists[1].insert(0, (op.k, op.v));
                        out.push(Expect::new(
                            Val::Put(PutRes::EvictedAndUpdate(ev.0, ev.1, old)),
                            a,
                            "put_protected_on_probationary_full_evict",
                        ));
                        let mut b = post.clone();
                        let d = b.lists[1].pop().unwrap();
                        b.lists[0].insert(0, d);
                        b.lists[1].insert(0, (op.k, op.v));
                        out.push(Expect::new(Val::Put(PutRes::Update(old)), b, "put_protected_on_probationary_full_demote"));
                    }
                }
                None => {
                    if q.len() < cq {
                        post.lists[1].insert(0, (op.k, op.v));
                        out.push(Expect::new(Val::Put(PutRes::Put), post, "put_protected_new"));
                    } else {
                        let mut a = post.clone();
                        let ev = a.lists[1].pop().unwrap();
                        a.lists[1].insert(0, (op.k, op.v));
                        out.push(Expect::new(Val::Put(PutRes::Evicted(ev.0, ev.1)), a, "put_protected_new_full_evict"));
                        let mut b = post.clone();
                        let d = b.lists[1].pop().unwrap();
                        b.lists[1].insert(0, (op.k, op.v));
                        let r = lru_put(&mut b.lists[0], cp, d.0, d.1);
                        out.push(Expect::new(Val::Put(r), b, "put_protected_new_full_demote"));
                    }
                }
            }
            Some(out)
        }
        Get | GetMut => {
            let b = match find(op.k) {
                Some((1, _)) => "get_protected",
                Some(_) => {
                    if q.len() >= cq {
                        "get_promote_with_demotion"
                    } else {
                        "get_promote"
                    }
                }
                None => "get_miss",
            };
            let w = if op.code == GetMut { op.w } else { 0 };
            let r = slru_get(&mut post, 0, 1, cq, op.k, w);
            one(some_v(r), post, b)
        }
        Peek => one(some_v(find(op.k).map(|(l, i)| s.lists[l][i].1)), post, "peek"),
        PeekMut => {
            let f = find(op.k);
            if let (Some((l, i)), true) = (f, op.w != 0) {
                post.lists[l][i].1 = op.w;
            }
            one(some_v(f.map(|(l, i)| s.lists[l][i].1)), post, "peek_mut")
        }
        Contains => one(Val::Bool(find(op.k).is_some()), post, "contains"),
        Remove => {
            let r = find(op.k).map(|(l, i)| post.lists[l].remove(i).1);
            one(some_v(r), post, "remove")
        }
        Purge => {
            post.lists[0].clear();
            post.lists[1].clear();
            one(Val::Unit, post, "purge")
        }
        Len => one(Val::Num((p.len() + q.len()) as i64), post, "len"),
        Cap => one(Val::Num((cp + cq) as i64), post, "cap"),
        IsEmpty => one(Val::Bool(p.is_empty() && q.is_empty()), post, "is_empty"),
        ListLen => one(Val::Num(s.lists[(op.list as usize).min(1)].len() as i64), post, "seg_len"),
        ListCap => one(Val::Num(if op.list == 0 { cp } else { cq } as i64), post, "seg_cap"),
        SegPeekLru | SegPeekLruMut | SegPeekMru | SegPeekMruMut => {
            let li = (op.list as usize).min(1);
            let l = &s.lists[li];
            let idx = if l.is_empty() {
                None
            } else if matches!(op.code, SegPeekLru | SegPeekLruMut) {
                Some(l.len() - 1)
            } else {
                Some(0)
            };
            if let (Some(i), true) = (idx, op.w != 0 && matches!(op.code, SegPeekLruMut | SegPeekMruMut)) {
                post.lists[li][i].1 = op.w;
            }
            one(some_kv(idx.map(|i| l[i])), post, "seg_peek")
        }
        SegRemoveLru => {
            let li = (op.list as usize).min(1);
            let r = post.lists[li].pop();
            one(some_kv(r), post, "seg_remove_lru")
        }
        Rehash => one(Val::Unit, post, "noop"),
        _ => None,
    }
}
