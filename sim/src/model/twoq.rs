//! 2Q(size, rq, gq, A1, Am, G): DESIGN §5. lists = [A1 (recent), Am (frequent), G (ghost)],
//! scalars = [size, recent quota, ghost bound].
use super::*;

/// victim choice: `from_recent_pref` says the rule prefers the recent queue; fall back to the
/// non-empty queue. Returns the list index.
fn victim_list(a1: &L, am: &L, prefer_recent: bool) -> Option<usize> {
    if prefer_recent {
        if !a1.is_empty() {
            Some(0)
        } else if !am.is_empty() {
            Some(1)
        } else {
            None
        }
    } else if !am.is_empty() {
        Some(1)
    } else if !a1.is_empty() {
        Some(0)
    } else {
        None
    }
}

pub fn step(s: &MState, op: &Op) -> Option<Vec<Expect>> {
    let size = s.scalars[0] as usize;
    let rq = s.scalars[1] as usize;
    let gq = s.scalars[2] as usize;
    let (a1, am, g) = (&s.lists[0], &s.lists[1], &s.lists[2]);
    let mut post = s.clone();
    let one = |val: Val, post: MState, b: &'static str| Some(vec![Expect::new(val, post, b)]);
    let full = a1.len() + am.len() >= size;
    use Code::*;
    match op.code {
        Put => {
            let (k, v) = (op.k, op.v);
            if let Some(p) = am.iter().position(|e| e.0 == k) {
                let old = post.lists[1].remove(p).1;
                post.lists[1].insert(0, (k, v));
                return one(Val::Put(PutRes::Update(old)), post, "put_frequent_hit");
            }
            if let Some(p) = a1.iter().position(|e| e.0 == k) {
                let old = post.lists[0].remove(p).1;
                post.lists[1].insert(0, (k, v));
                return one(Val::Put(PutRes::Update(old)), post, "put_recent_hit");
            }
            if let Some(gp) = g.iter().position(|e| e.0 == k) {
                let old = g[gp].1;
                if !full {
                    post.lists[2].remove(gp);
                    post.lists[1].insert(0, (k, v));
                    return one(Val::Put(PutRes::Update(old)), post, "put_ghost_hit_not_full");
                }
                let prefer_recent = a1.len() > rq;
                let vl = victim_list(a1, am, prefer_recent)?;
                let tag_a: &'static str = match (vl, prefer_recent) {
                    (0, true) => "put_ghost_hit_full_victim_recent_over_quota",
                    (0, false) => "put_ghost_hit_full_victim_recent_fallback",
                    (_, false) => "put_ghost_hit_full_victim_frequent",
                    (_, true) => "put_ghost_hit_full_victim_frequent_fallback",
                };
                let mut out = Vec::new();
                // (a) victim to ghost first, then unghost (today's order)
                {
                    let mut a = post.clone();
                    let victim = a.lists[vl].pop().unwrap();
                    let r = lru_put(&mut a.lists[2], gq, victim.0, victim.1);
                    let dropped = match r {
                        PutRes::Evicted(x, y) => Some((x, y)),
                        _ => None,
                    };
                    if let Some(p2) = a.lists[2].iter().position(|e| e.0 == k) {
                        a.lists[2].remove(p2);
                    }
                    a.lists[1].insert(0, (k, v));
                    let res = match dropped {
                        Some((x, _)) if x == k => PutRes::Update(old),
                        Some((x, y)) => PutRes::EvictedAndUpdate(x, y, old),
                        None => PutRes::Update(old),
                    };
                    out.push(Expect::new(Val::Put(res), a, tag_a));
                }
                // (b) unghost first, then victim to ghost (no overflow possible)
                {
                    let mut b = post.clone();
                    b.lists[2].remove(gp);
                    let victim = b.lists[vl].pop().unwrap();
                    let r = lru_put(&mut b.lists[2], gq, victim.0, victim.1);
                    b.lists[1].insert(0, (k, v));
                    let res = match r {
                        PutRes::Evicted(x, y) => PutRes::EvictedAndUpdate(x, y, old),
                        _ => PutRes::Update(old),
                    };
                    out.push(Expect::new(Val::Put(res), b, tag_a));
                }
                return Some(out);
            }
            // brand-new key
            if !full {
                post.lists[0].insert(0, (k, v));
                return one(Val::Put(PutRes::Put), post, "put_new_not_full");
            }
            let prefer_recent = a1.len() >= rq;
            let vl = victim_list(a1, am, prefer_recent)?;
            let tag: &'static str = match (vl, prefer_recent, a1.len() == rq) {
                (0, true, true) => "put_new_full_victim_recent_at_quota",
                (0, true, false) => "put_new_full_victim_recent_over_quota",
                (0, false, _) => "put_new_full_victim_recent_fallback",
                (_, false, _) => "put_new_full_victim_frequent",
                (_, true, _) => "put_new_full_victim_frequent_fallback",
            };
            let victim = post.lists[vl].pop().unwrap();
            let r = lru_put(&mut post.lists[2], gq, victim.0, victim.1);
            post.lists[0].insert(0, (k, v));
            let res = match r {
                PutRes::Evicted(x, y) => PutRes::Evicted(x, y),
                _ => PutRes::Put,
            };
            one(Val::Put(res), post, tag)
        }
        Get | GetMut => {
            let w = if op.code == GetMut { op.w } else { 0 };
            if let Some(old) = touch(&mut post.lists[1], op.k) {
                if w != 0 {
                    post.lists[1][0].1 = w;
                }
                return one(Val::V(old), post, "get_frequent");
            }
            if let Some(p) = a1.iter().position(|e| e.0 == op.k) {
                let e = post.lists[0].remove(p);
                post.lists[1].insert(0, (e.0, if w != 0 { w } else { e.1 }));
                return one(Val::V(e.1), post, "get_recent_promote");
            }
            one(Val::None, post, "get_miss")
        }
        Peek | PeekMut | Contains => {
            let f = s.find(op.k).filter(|(l, _)| *l < 2);
            if let (Some((l, i)), true) = (f, op.code == PeekMut && op.w != 0) {
                post.lists[l][i].1 = op.w;
            }
            let val = match op.code {
                Contains => Val::Bool(f.is_some()),
                _ => some_v(f.map(|(l, i)| s.lists[l][i].1)),
            };
            one(val, post, "peek")
        }
        Remove => match s.find(op.k) {
            Some((l, i)) if l < 2 => {
                let old = post.lists[l].remove(i).1;
                one(Val::V(old), post, "remove_resident")
            }
            Some((l, i)) => {
                // L3: ghost-only key
                let mut b = post.clone();
                let old = b.lists[l].remove(i).1;
                Some(vec![
                    Expect::new(Val::None, post, "remove_ghost_none"),
                    Expect::new(Val::V(old), b, "remove_ghost_some"),
                ])
            }
            None => one(Val::None, post, "remove_miss"),
        },
        Purge => {
            for l in post.lists.iter_mut() {
                l.clear();
            }
            one(Val::Unit, post, "purge")
        }
        Len => one(Val::Num((a1.len() + am.len()) as i64), post, "len"),
        Cap => one(Val::Num(size as i64), post, "cap"),
        IsEmpty => one(Val::Bool(a1.is_empty() && am.is_empty() && g.is_empty()), post, "is_empty"),
        ListLen => one(Val::Num(s.lists[(op.list as usize).min(2)].len() as i64), post, "list_len"),
        Debug | Rehash => one(Val::Unit, post, "noop"),
        Iter => {
            let li = (op.list as usize).min(2);
            let (v, l) = iter_expect(&s.lists[li], op);
            post.lists[li] = l;
            one(v, post, "iter")
        }
        _ => None,
    }
}
