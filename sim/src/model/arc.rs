//! ARC(size, p, T1, T2, B1, B2): DESIGN §5. lists = [T1 (recent), T2 (frequent), B1 (recent
//! ghosts), B2 (frequent ghosts)], scalars = [size, p].
use super::*;

/// replace(b2): evict from T1 if |T1|>0 and (|T1|>p or (|T1|=p and b2)) else from T2, falling
/// back to the non-empty list; the victim becomes the most recent ghost of the matching list.
fn replace(post: &mut MState, p: usize, b2: bool) -> &'static str {
    replace_v(post, p, b2).0
}

/// as `replace`, also naming the ghost list and the victim that entered it
fn replace_v(post: &mut MState, p: usize, b2: bool) -> (&'static str, Option<(usize, (u32, u64))>) {
    let t1 = post.lists[0].len();
    let t2 = post.lists[1].len();
    let from_t1_rule = t1 > 0 && (t1 > p || (t1 == p && b2));
    let (src, tag) = if from_t1_rule {
        (0, if t1 > p { "replace_t1_over_p" } else { "replace_t1_eq_p_b2" })
    } else if t2 > 0 {
        (1, "replace_t2")
    } else if t1 > 0 {
        (0, "replace_t1_fallback")
    } else {
        return ("replace_nothing", None);
    };
    let v = post.lists[src].pop().unwrap();
    post.lists[src + 2].insert(0, v);
    (tag, Some((src + 2, v)))
}

pub fn step(s: &MState, op: &Op) -> Option<Vec<Expect>> {
    let size = s.scalars[0] as usize;
    let p = s.scalars[1] as usize;
    let (t1, t2, b1, b2) = (&s.lists[0], &s.lists[1], &s.lists[2], &s.lists[3]);
    let mut post = s.clone();
    let full = t1.len() + t2.len() >= size;
    let lenient = |mut e: Expect| -> Expect {
        e.lenient_ghosts = vec![2, 3];
        e
    };
    let one = |val: Val, post: MState, b: &'static str| Some(vec![Expect::new(val, post, b)]);
    use Code::*;
    match op.code {
        Put => {
            let (k, v) = (op.k, op.v);
            if let Some(i) = t1.iter().position(|e| e.0 == k) {
                let old = post.lists[0].remove(i).1;
                post.lists[1].insert(0, (k, v));
                return one(Val::Put(PutRes::Update(old)), post, "put_t1_hit");
            }
            if let Some(i) = t2.iter().position(|e| e.0 == k) {
                let old = post.lists[1].remove(i).1;
                post.lists[1].insert(0, (k, v));
                return one(Val::Put(PutRes::Update(old)), post, "put_t2_hit");
            }
            if let Some(i) = b1.iter().position(|e| e.0 == k) {
                let delta = std::cmp::max(1, b2.len() / b1.len());
                let np = std::cmp::min(size, p + delta);
                post.scalars[1] = np as i64;
                let old = post.lists[2].remove(i).1;
                let (tag, victim) = if full { replace_v(&mut post, np, false) } else { ("b1_hit_not_full", None) };
                post.lists[1].insert(0, (k, v));
                let tag: &'static str = match (tag, delta > 1, np == size) {
                    ("replace_t1_over_p", _, _) => "put_b1_hit_replace_t1",
                    ("replace_t2", _, _) => "put_b1_hit_replace_t2",
                    ("replace_t1_fallback", _, _) => "put_b1_hit_replace_t1_fallback",
                    (_, true, _) => "put_b1_hit_delta_gt1",
                    (_, _, true) => "put_b1_hit_p_capped",
                    _ => "put_b1_hit",
                };
                let mut e = lenient(Expect::new(Val::Put(PutRes::Update(old)), post, tag));
                // on a ghost hit nothing trims the ghost lists: the victim must be remembered
                e.front_required = victim.into_iter().collect();
                return Some(vec![e]);
            }
            if let Some(i) = b2.iter().position(|e| e.0 == k) {
                let delta = std::cmp::max(1, b1.len() / b2.len());
                let np = p.saturating_sub(delta);
                post.scalars[1] = np as i64;
                let old = post.lists[3].remove(i).1;
                let (tag, victim) = if full { replace_v(&mut post, np, true) } else { ("b2_hit_not_full", None) };
                post.lists[1].insert(0, (k, v));
                let tag: &'static str = match tag {
                    "replace_t1_over_p" => "put_b2_hit_replace_t1",
                    "replace_t1_eq_p_b2" => "put_b2_hit_replace_t1_eq_p",
                    "replace_t2" => "put_b2_hit_replace_t2",
                    "replace_t1_fallback" => "put_b2_hit_replace_t1_fallback",
                    _ => "put_b2_hit",
                };
                let mut e = lenient(Expect::new(Val::Put(PutRes::Update(old)), post, tag));
                e.front_required = victim.into_iter().collect();
                return Some(vec![e]);
            }
            let tag = if full { replace(&mut post, p, false) } else { "new_not_full" };
            post.lists[0].insert(0, (k, v));
            let tag: &'static str = match tag {
                "replace_t1_over_p" => "put_new_replace_t1",
                "replace_t2" => "put_new_replace_t2",
                "replace_t1_fallback" => "put_new_replace_t1_fallback",
                _ => "put_new",
            };
            Some(vec![lenient(Expect::new(Val::Put(PutRes::Put), post, tag))])
        }
        Get | GetMut => {
            let w = if op.code == GetMut { op.w } else { 0 };
            if let Some(i) = t1.iter().position(|e| e.0 == op.k) {
                let e = post.lists[0].remove(i);
                post.lists[1].insert(0, (e.0, if w != 0 { w } else { e.1 }));
                return one(Val::V(e.1), post, "get_t1_promote");
            }
            if let Some(old) = touch(&mut post.lists[1], op.k) {
                if w != 0 {
                    post.lists[1][0].1 = w;
                }
                return one(Val::V(old), post, "get_t2");
            }
            one(Val::None, post, "get_miss")
        }
        Peek | PeekMut | Contains => {
            let f = s.find(op.k).filter(|(l, _)| *l < 2);
            if let (Some((l, i)), true) = (f, op.code == PeekMut && op.w != 0) {
                post.lists[l][i].1 = op.w;
            }
            let val = match op.code {
                Contains => Val::Bool(f.is_some()),
                _ => some_v(f.map(|(l, i)| s.lists[l][i].1)),
            };
            one(val, post, "peek")
        }
        Remove => match s.find(op.k) {
            Some((l, i)) if l < 2 => {
                let old = post.lists[l].remove(i).1;
                one(Val::V(old), post, "remove_resident")
            }
            Some((l, i)) => {
                let mut b = post.clone();
                let old = b.lists[l].remove(i).1;
                Some(vec![
                    Expect::new(Val::None, post, "remove_ghost_none"),
                    Expect::new(Val::V(old), b, "remove_ghost_some"),
                ])
            }
            None => one(Val::None, post, "remove_miss"),
        },
        Purge => {
            for l in post.lists.iter_mut() {
                l.clear();
            }
            let mut z = post.clone();
            z.scalars[1] = 0;
            Some(vec![Expect::new(Val::Unit, post, "purge"), Expect::new(Val::Unit, z, "purge_resets_p")])
        }
        Len => one(Val::Num((t1.len() + t2.len()) as i64), post, "len"),
        Cap => one(Val::Num(size as i64), post, "cap"),
        IsEmpty => one(Val::Bool(s.lists.iter().all(|l| l.is_empty())), post, "is_empty"),
        Partition => one(Val::Num(p as i64), post, "partition"),
        ListLen => one(Val::Num(s.lists[(op.list as usize).min(3)].len() as i64), post, "list_len"),
        Rehash => one(Val::Unit, post, "noop"),
        Iter => {
            let li = (op.list as usize).min(3);
            let (v, l) = iter_expect(&s.lists[li], op);
            post.lists[li] = l;
            one(v, post, "iter")
        }
        _ => None,
    }
}
