//! Simulated BuildHasher / KeyHasher (seams N1, N2): one concrete type with a runtime kind.
use crate::world::{self, CallKind};
use caches::lfu::KeyHasher;
use std::borrow::Borrow;
use std::hash::{BuildHasher, Hash, Hasher};

#[derive(Clone, Copy, Debug, PartialEq, Eq)]
pub enum HKind {
    Sip = 0,
    Fnv = 1,
    Identity = 2,
    Const0 = 3,
    /// Sip with only `bits` low bits kept (collision bursts)
    Masked = 4,
}
pub const HKIND_NAMES: [&str; 5] = ["sip", "fnv", "identity", "const0", "masked"];

#[derive(Clone, Copy, Debug, PartialEq, Eq)]
pub struct HasherSpec {
    pub kind: HKind,
    pub k0: u64,
    pub k1: u64,
}
impl HasherSpec {
    pub const IDENTITY: HasherSpec = HasherSpec {
        kind: HKind::Identity,
        k0: 0,
        k1: 0,
    };
    pub fn from_u(kind: u64, k0: u64, k1: u64) -> HasherSpec {
        let kind = match kind {
            0 => HKind::Sip,
            1 => HKind::Fnv,
            2 => HKind::Identity,
            3 => HKind::Const0,
            _ => HKind::Masked,
        };
        HasherSpec { kind, k0, k1 }
    }
}

#[derive(Debug)]
pub struct SimBuildHasher {
    pub spec: HasherSpec,
}
impl SimBuildHasher {
    pub fn new(spec: HasherSpec) -> Self {
        SimBuildHasher { spec }
    }
}
impl Default for SimBuildHasher {
    fn default() -> Self {
        SimBuildHasher {
            spec: HasherSpec {
                kind: HKind::Sip,
                k0: 0,
                k1: 0,
            },
        }
    }
}
impl Clone for SimBuildHasher {
    fn clone(&self) -> Self {
        world::user_call(CallKind::HasherClone);
        SimBuildHasher { spec: self.spec }
    }
}

pub enum SimHasher {
    #[allow(deprecated)]
    Sip(std::hash::SipHasher, u64),
    Fnv(u64),
    Identity(u64),
    Const0,
}

impl BuildHasher for SimBuildHasher {
    type Hasher = SimHasher;
    fn build_hasher(&self) -> SimHasher {
        world::user_call(CallKind::BuildHasher);
        make_hasher(&self.spec)
    }
}

#[allow(deprecated)]
fn make_hasher(spec: &HasherSpec) -> SimHasher {
    match spec.kind {
        HKind::Sip => SimHasher::Sip(std::hash::SipHasher::new_with_keys(spec.k0, spec.k1), u64::MAX),
        HKind::Masked => {
            let bits = 1 + (spec.k1 % 2); // 1 or 2 low bits, and the top 7 bits (hashbrown's tag) kept to 1 bit
            let mask = ((1u64 << bits) - 1) | (1u64 << 63);
            SimHasher::Sip(std::hash::SipHasher::new_with_keys(spec.k0, spec.k1), mask)
        }
        HKind::Fnv => SimHasher::Fnv(0xcbf2_9ce4_8422_2325 ^ spec.k0),
        HKind::Identity => SimHasher::Identity(0),
        HKind::Const0 => SimHasher::Const0,
    }
}

impl Hasher for SimHasher {
    fn finish(&self) -> u64 {
        world::user_call(CallKind::HasherFinish);
        match self {
            SimHasher::Sip(h, mask) => h.finish() & *mask,
            SimHasher::Fnv(h) => *h,
            SimHasher::Identity(h) => *h,
            SimHasher::Const0 => 0,
        }
    }
    fn write(&mut self, bytes: &[u8]) {
        match self {
            SimHasher::Sip(h, _) => h.write(bytes),
            SimHasher::Fnv(h) | SimHasher::Identity(h) => {
                for b in bytes {
                    *h ^= *b as u64;
                    *h = h.wrapping_mul(0x0000_0100_0000_01B3);
                }
            }
            SimHasher::Const0 => {}
        }
    }
    fn write_u32(&mut self, i: u32) {
        match self {
            SimHasher::Identity(h) => *h = i as u64,
            _ => self.write(&i.to_le_bytes()),
        }
    }
    fn write_u64(&mut self, i: u64) {
        match self {
            SimHasher::Identity(h) => *h = i,
            _ => self.write(&i.to_le_bytes()),
        }
    }
}

// ---- key hasher (64-bit digest for doorkeeper / sketch) -------------------------------------

#[derive(Clone, Copy, Debug, PartialEq, Eq)]
pub enum KHKind {
    Identity = 0,
    Sip = 1,
    Const = 2,
    /// digest lives in the top 32 bits only (low 32 bits zero)
    Top32 = 3,
    /// Sip digest with the top bit forced (large hashes: overflow probes)
    High = 4,
}
pub const KHKIND_NAMES: [&str; 5] = ["identity", "sip", "const", "top32", "high"];

#[derive(Clone, Copy, Debug, PartialEq, Eq)]
pub struct KeyHasherSpec {
    pub kind: KHKind,
    pub k: u64,
}
impl KeyHasherSpec {
    pub fn from_u(kind: u64, k: u64) -> Self {
        let kind = match kind {
            0 => KHKind::Identity,
            1 => KHKind::Sip,
            2 => KHKind::Const,
            3 => KHKind::Top32,
            _ => KHKind::High,
        };
        KeyHasherSpec { kind, k }
    }
}

#[derive(Debug)]
pub struct SimKeyHasher {
    pub spec: KeyHasherSpec,
}
impl SimKeyHasher {
    pub fn new(spec: KeyHasherSpec) -> Self {
        SimKeyHasher { spec }
    }
    pub fn digest_of_ident_hash(spec: &KeyHasherSpec, raw: u64) -> u64 {
        match spec.kind {
            KHKind::Identity => raw,
            KHKind::Sip => raw,
            KHKind::Const => spec.k,
            KHKind::Top32 => raw << 32,
            KHKind::High => raw | (1u64 << 63) | (0xFFFF_FFFFu64 << 32),
        }
    }
}
impl Default for SimKeyHasher {
    fn default() -> Self {
        SimKeyHasher {
            spec: KeyHasherSpec {
                kind: KHKind::Sip,
                k: 0,
            },
        }
    }
}
impl Clone for SimKeyHasher {
    fn clone(&self) -> Self {
        world::user_call(CallKind::HasherClone);
        SimKeyHasher { spec: self.spec }
    }
}

impl<K: Hash + Eq> KeyHasher<K> for SimKeyHasher {
    fn hash_key<Q>(&self, key: &Q) -> u64
    where
        K: Borrow<Q>,
        Q: Hash + Eq + ?Sized,
    {
        world::user_call(CallKind::KeyHasher);
        let inner = match self.spec.kind {
            KHKind::Sip | KHKind::High => HasherSpec {
                kind: HKind::Sip,
                k0: self.spec.k,
                k1: 0x6b65_7968_6173_6821,
            },
            _ => HasherSpec::IDENTITY,
        };
        let mut h = make_hasher(&inner);
        key.hash(&mut h);
        let raw = match &h {
            SimHasher::Sip(s, _) => s.finish(),
            SimHasher::Fnv(x) | SimHasher::Identity(x) => *x,
            SimHasher::Const0 => 0,
        };
        Self::digest_of_ident_hash(&self.spec, raw)
    }
}

/// which BuildHasher type a subject is built with
pub trait HB: BuildHasher + Clone + 'static {
    const CONTROLLED: bool;
    fn make(spec: &HasherSpec) -> Self;
}
impl HB for SimBuildHasher {
    const CONTROLLED: bool = true;
    fn make(spec: &HasherSpec) -> Self {
        SimBuildHasher::new(*spec)
    }
}
impl HB for caches::DefaultHashBuilder {
    const CONTROLLED: bool = false;
    fn make(_spec: &HasherSpec) -> Self {
        Default::default()
    }
}
