#![allow(dead_code)]
//! cachesim — deterministic simulation with fault injection for al8n/caches-rs.
//!
//!   cachesim check   --prop C06 --tier quick [--seed N] [--runs N] [--workers N] [--evidence FILE] [--replays DIR]
//!   cachesim worker  --prop C06 --tier quick --seed N --from A --to B --out FILE        (internal)
//!   cachesim replay  FILE
//!   cachesim digest  --prop C06 --tier quick --seed N --from A --to B                   (determinism proof)
//!   cachesim show    --prop C06 --seed N --index I
#[macro_use]
mod macros;
mod alloc;
mod alpha;
mod exec;
mod gen;
mod hashers;
mod keys;
mod model;
mod ops;
mod rng;
mod runner;
mod shadow;
mod shrink;
mod subj;
mod sup;
mod trace;
mod world;

#[global_allocator]
static GLOBAL: alloc::SimAlloc = alloc::SimAlloc;

fn main() {
    let args: Vec<String> = std::env::args().collect();
    world::install_panic_hook();
    let code = sup::main(&args);
    std::process::exit(code);
}
