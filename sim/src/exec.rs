//! The run loop: executes one explicit trace against the real code inside the simulated world
//! and evaluates the oracles after every event.
use crate::alloc;
use crate::alpha::{Alpha, Kind};
use crate::model::{self, EstEffect, MState};
use crate::ops::{Code, Event, Op, PutRes, Val};
use crate::subj::{self, EstStep, Header, Subject};
use crate::trace::Trace;
use crate::world::{self, InjectedPanic, SoftCbPanic, WatchdogPanic};
use std::collections::{BTreeMap, BTreeSet};
use std::panic::{catch_unwind, AssertUnwindSafe};

pub const EVENT_BUDGET: u64 = 20_000;
const SOFT: &str = "eviction callback failed (simulated)";

#[derive(Clone, Debug)]
pub struct Violation {
    pub prop: String,
    pub oracle: String,
    pub step: i64,
    pub op: String,
    pub detail: String,
}
impl Violation {
    pub fn fingerprint(&self) -> String {
        format!("{}|{}|{}", self.prop, self.oracle, self.op)
    }
}

#[derive(Clone, Debug, Default)]
pub struct Stats {
    pub counters: BTreeMap<String, u64>,
    pub distinct: BTreeSet<u64>,
}
impl Stats {
    pub fn bump(&mut self, k: &str) {
        *self.counters.entry(k.to_string()).or_insert(0) += 1;
    }
    pub fn add(&mut self, k: &str, n: u64) {
        *self.counters.entry(k.to_string()).or_insert(0) += n;
    }
    pub fn merge(&mut self, o: &Stats) {
        for (k, v) in &o.counters {
            *self.counters.entry(k.clone()).or_insert(0) += *v;
        }
        for d in &o.distinct {
            self.distinct.insert(*d);
        }
    }
}

#[derive(Clone, Debug)]
pub struct StepLog {
    /// index of the event in the executed trace
    pub idx: usize,
    pub val: Val,
    /// abstract state of the primary after the event (None once destroyed)
    pub post: Option<MState>,
    pub observer: bool,
    /// eviction-callback invocations (in order) of this event
    pub cb: Vec<(u32, u64)>,
}

pub struct ExecResult {
    pub violations: Vec<Violation>,
    pub log: Vec<StepLog>,
    pub log_hash: u64,
    pub stats: Stats,
    pub calls: u64,
    pub kind_counts: [u64; world::N_CALL_KINDS],
    /// kind of every user-code call in order (recorded for C18 histories with macro events)
    pub kind_log: Vec<(u8, u32)>,
    pub faults_fired: u32,
    pub fault_kind: Option<usize>,
    pub fault_step: Option<usize>,
    pub fault_code: Option<Code>,
    pub harness_error: Option<String>,
    pub constructed: bool,
}

#[derive(Clone, Copy, Debug)]
pub struct Opts {
    /// evaluate policy models / invariants (off in fault-injecting executions after the fault)
    pub oracles: bool,
    pub keep_log: bool,
    pub collect_distinct: bool,
    /// no snapshots at all: only the real calls, the ledger and the allocator (used when the
    /// executor itself is the oracle: Miri, AddressSanitizer)
    pub lean: bool,
}
impl Default for Opts {
    fn default() -> Self {
        Opts {
            oracles: true,
            keep_log: false,
            collect_distinct: true,
            lean: lean_mode(),
        }
    }
}
pub fn lean_mode() -> bool {
    std::env::var_os("CACHESIM_LEAN").is_some()
}

#[derive(Clone, Debug, PartialEq)]
enum Sh {
    Stored(u64),
    Released,
}

struct Slot {
    s: Box<dyn Subject>,
    shadow: BTreeMap<u32, Sh>,
    alpha: Option<Alpha>,
    tlfu: Option<crate::shadow::TlfuShadow>,
    sampled: Option<crate::shadow::SampledShadow>,
    /// eviction-callback invocations of the last event
    last_cb: Vec<(u32, u64)>,
}

fn panic_desc(p: Box<dyn std::any::Any + Send>) -> (String, bool, bool) {
    // (description, injected, watchdog)
    if let Some(i) = p.downcast_ref::<InjectedPanic>() {
        let d = format!("injected@{}:{}", i.call_index, world::CALL_KIND_NAMES[i.kind as usize]);
        alloc::harness_scope(move || drop(p));
        return (d, true, false);
    }
    if p.is::<WatchdogPanic>() {
        alloc::harness_scope(move || drop(p));
        return ("watchdog".into(), false, true);
    }
    if p.is::<SoftCbPanic>() {
        alloc::harness_scope(move || drop(p));
        return (SOFT.into(), false, false);
    }
    let loc = world::take_last_panic().unwrap_or_else(|| "unknown".into());
    alloc::harness_scope(move || drop(p));
    (loc, false, false)
}

struct Run<'a> {
    t: &'a Trace,
    opts: Opts,
    v: Vec<Violation>,
    stats: Stats,
    faulted: bool,
    fault_step: Option<usize>,
    fault_code: Option<Code>,
    log: Vec<StepLog>,
    log_hash: u64,
    /// the simulated callback has failed once: from here on only the callback history (C15) is
    /// judged, every other oracle would be looking at an aborted operation
    soft: bool,
    /// a hash index was found inconsistent after the injected fault: the object is not touched
    /// again and is leaked instead of dropped (its Drop would run into undefined behaviour)
    poisoned: bool,
    /// user-code calls one operation may make before the watchdog declares it non-terminating
    /// (grows with the configured capacity: purge, resize, clone and drop visit every entry)
    budget: u64,
}

impl<'a> Run<'a> {
    fn viol(&mut self, prop: &str, oracle: &str, step: i64, op: &Op, detail: String) {
        if self.soft && prop != "C15" {
            self.stats.bump("after_callback_failure_other_oracles_skipped");
            return;
        }
        // violations of other properties must not crowd out the verdict of the property under check
        let own = prop == self.t.prop;
        let n_own = self.v.iter().filter(|v| v.prop == self.t.prop).count();
        let n_other = self.v.len() - n_own;
        if (own && n_own < 16) || (!own && n_other < 8) {
            self.v.push(Violation {
                prop: prop.to_string(),
                oracle: oracle.to_string(),
                step,
                op: op.code.name().to_string(),
                detail,
            });
        }
    }

    /// violations detected inside user code / by the allocator since the last harvest
    fn harvest(&mut self, step: i64, op: &Op) {
        for a in world::take_violations() {
            let prop = if self.faulted { "C18" } else { a.prop };
            self.viol(prop, a.oracle, step, op, a.detail);
        }
        for e in alloc::take_errors() {
            let prop = if self.faulted { "C18" } else { "C03" };
            self.viol(
                prop,
                e.kind,
                step,
                op,
                format!("allocator: {} of block {:#x} (size {})", e.kind, e.addr, e.size),
            );
        }
    }

    fn snapshot(&mut self, s: &dyn Subject, step: i64, op: &Op) -> Option<Alpha> {
        if self.opts.lean {
            return None;
        }
        let relaxed = self.faulted;
        match catch_unwind(AssertUnwindSafe(|| s.snapshot(relaxed))) {
            Ok(a) => {
                if a.corrupt() {
                    self.poisoned = true;
                    if a.problems().is_empty() {
                        self.stats.bump("post_fault_index_not_traversable_object_set_aside");
                    } else {
                        self.stats.bump("index_left_inconsistent_by_interrupted_rehash");
                    }
                }
                Some(a)
            }
            Err(p) => {
                let (d, _, _) = panic_desc(p);
                self.viol(
                    if self.faulted { "C18" } else { "C03" },
                    "audit_panicked",
                    step,
                    op,
                    format!("the structural audit itself panicked: {}", d),
                );
                None
            }
        }
    }
}

pub fn execute(t: &Trace, opts: Opts) -> ExecResult {
    world::reset();
    world::set_quiet(true);
    let mut run = Run {
        t,
        opts,
        v: Vec::new(),
        stats: Stats::default(),
        faulted: false,
        fault_step: None,
        fault_code: None,
        log: Vec::new(),
        log_hash: 0xC0FFEE,
        soft: false,
        poisoned: false,
        budget: EVENT_BUDGET + 256 * (t.header.sizes.iter().take(3).map(|x| (*x).min(1 << 20) as u64).sum::<u64>()),
    };
    world::set_cb_panic(t.cb_panic_at);
    world::set_contain(t.events.iter().any(|e| e.op.code == Code::Fill));
    if t.prop == "C18" && t.faults.is_empty() && t.events.iter().any(|e| e.op.code == Code::Fill) {
        world::record_kinds();
    }
    let f1 = t.faults.first().copied().unwrap_or(0);
    let f2 = t.faults.get(1).copied().unwrap_or(0);
    alloc::begin_run(t.alloc);
    world::set_fault(f1, f2);
    let nop = Op::new(Code::Len);
    let mut harness_error = None;
    let mut constructed = false;

    // ---- construction -------------------------------------------------------------------
    #[cfg(feature = "flavor-std")]
    caches::verif::set_sketch_clock(t.header.clock);
    world::begin_event(run.budget);
    let built = catch_unwind(AssertUnwindSafe(|| subj::factory::build(&t.header)));
    world::end_event();
    let mut slots: Vec<Option<Slot>> = vec![None, None];
    match built {
        Ok(Ok(s)) => {
            constructed = true;
            let tlfu = if t.header.kind == Kind::Tlfu {
                Some(crate::shadow::TlfuShadow {
                    samples: t.header.samples,
                    ..Default::default()
                })
            } else {
                None
            };
            let sampled = if t.header.kind == Kind::Sampled {
                Some(crate::shadow::SampledShadow {
                    max: t.header.max_cost,
                    samples: t.header.samples,
                    ..Default::default()
                })
            } else {
                None
            };
            slots[0] = Some(Slot {
                s,
                shadow: BTreeMap::new(),
                alpha: None,
                tlfu,
                sampled,
                last_cb: Vec::new(),
            });
        }
        Ok(Err(e)) => {
            // constructor returned Err: legitimate or not is decided by the C05 grid oracle
            run.stats.bump("ctor_err");
            // C05: "rejected with the matching error"
            let want = subj::factory::invalid_categories(&t.header);
            if let (Some(cat), false) = (subj::factory::error_category(&e), want.is_empty()) {
                if !want.contains(&cat) {
                    run.viol(
                        "C05",
                        "ctor_wrong_error",
                        -1,
                        &nop,
                        format!("constructor returned Err({}) (category {}) but the invalid arguments are {:?}", e, cat, want),
                    );
                } else {
                    run.stats.bump("ctor_error_kind_checked");
                }
            }
            if let Some(exp) = subj::factory::expected_ctor(&t.header) {
                if exp.is_ok() {
                    run.viol(
                        "C05",
                        "ctor_rejects_valid",
                        -1,
                        &nop,
                        format!("constructor returned Err({}) for arguments documented as valid", e),
                    );
                }
            }
        }
        Err(p) => {
            let (d, inj, wd) = panic_desc(p);
            if inj {
                run.faulted = true;
                run.fault_step = Some(0);
            } else if !wd {
                run.viol("C05", "ctor_panic", -1, &nop, format!("constructor panicked at {}", d));
            }
        }
    }
    if constructed {
        if let Some(exp) = subj::factory::expected_ctor(&t.header) {
            if let Err(why) = exp {
                run.viol(
                    "C05",
                    "ctor_accepts_invalid",
                    -1,
                    &nop,
                    format!("constructor returned Ok for arguments documented as invalid: {}", why),
                );
            }
        }
    }
    run.harvest(-1, &nop);
    if let Some(sl) = slots[0].as_mut() {
        let a = run.snapshot(sl.s.as_ref(), -1, &nop);
        if let Some(a) = &a {
            if run.opts.oracles && !run.faulted {
                check_structure(&mut run, a, -1, &nop);
                check_c01(&mut run, &t.header, a, -1, &nop);
                check_ctor_state(&mut run, &t.header, a);
            }
            // conversions start non-empty: the caller's history starts with those pairs
            for l in &a.lists {
                for e in &l.ents {
                    sl.shadow.insert(e.ident, Sh::Stored(e.val));
                }
            }
        }
        sl.alpha = a;
    }

    // ---- events ---------------------------------------------------------------------------
    let mut lockstep = false;
    for (i, ev) in t.events.iter().enumerate() {
        let step = i as i64;
        let op = &ev.op;
        world::set_event_idx(i as u32);
        run.stats.bump("events");
        if op.code == Code::Rehash {
            run.stats.bump("fault_fired:forced_rehash");
        }
        if ev.observer {
            run.stats.bump("fault_fired:observer_call");
        }
        if run.v.iter().filter(|v| v.prop == t.prop).count() >= 6 || run.poisoned {
            break;
        }
        match op.code {
            Code::Fork => {
                if slots[1].is_some() || slots[0].is_none() {
                    continue;
                }
                do_fork(&mut run, &mut slots, step, op);
                lockstep = slots[1].is_some();
                continue;
            }
            Code::DropTwin => {
                let which = (op.n as usize).min(1);
                if slots[0].is_some() && slots[1].is_some() {
                    do_destroy(&mut run, &mut slots, which, step, op);
                    lockstep = false;
                    // the survivor must be unaffected
                    let other = 1 - which;
                    check_unchanged(&mut run, &mut slots, other, step, op, "C16", "drop_affects_other");
                }
                continue;
            }
            _ => {}
        }
        let targets: Vec<usize> = match ev.target {
            2 if slots[0].is_some() && slots[1].is_some() => vec![0, 1],
            1 if slots[1].is_some() => vec![1],
            1 => continue,
            _ if slots[0].is_some() => vec![0],
            _ if slots[1].is_some() => vec![1],
            _ => break,
        };
        let mut vals: Vec<Val> = Vec::new();
        for &ti in &targets {
            let val = do_event(&mut run, &mut slots, ti, step, ev);
            vals.push(val);
        }
        if targets.len() == 2 {
            // lock-step twins must agree on the result and on the abstract state
            if run.opts.oracles && !run.faulted {
                if vals[0] != vals[1] {
                    run.viol(
                        "C16",
                        "lockstep_result",
                        step,
                        op,
                        format!("original returned {} but its clone returned {}", vals[0].show(), vals[1].show()),
                    );
                }
                let (c0, c1) = (&slots[0].as_ref().unwrap().last_cb, &slots[1].as_ref().unwrap().last_cb);
                if c0 != c1 {
                    let d = format!("the original's eviction callback saw {:?} but the clone's saw {:?} for the same operation", c0, c1);
                    run.viol("C16", "lockstep_callbacks", step, op, d);
                }
                let (a, b) = (
                    slots[0].as_ref().and_then(|s| s.alpha.as_ref()),
                    slots[1].as_ref().and_then(|s| s.alpha.as_ref()),
                );
                if let (Some(a), Some(b)) = (a, b) {
                    if !a.abs_eq(b) {
                        let d = format!("after the same operation original is {} but clone is {}", a.show(), b.show());
                        run.viol("C16", "lockstep_state", step, op, d);
                    }
                }
            }
        } else if slots[0].is_some() && slots[1].is_some() && !lockstep_only(ev) {
            // independence: an event applied to one twin leaves the other untouched
            let other = 1 - targets[0];
            check_unchanged(&mut run, &mut slots, other, step, op, "C16", "op_affects_other");
        }
        let _ = lockstep;
        // log
        let post = slots[0].as_ref().and_then(|s| s.alpha.as_ref()).map(MState::of);
        let line = format!(
            "{}|{}|{}",
            i,
            vals.iter().map(|v| v.show()).collect::<Vec<_>>().join("&"),
            post.as_ref().map(|p| p.show()).unwrap_or_default()
        );
        run.log_hash = crate::rng::mix(run.log_hash, crate::rng::fnv64(&line));
        if run.opts.keep_log {
            run.log.push(StepLog {
                idx: i,
                val: vals[0].clone(),
                post,
                observer: ev.observer,
                cb: slots[targets[0]].as_ref().map(|s| s.last_cb.clone()).unwrap_or_default(),
            });
        }
    }

    world::set_event_idx(u32::MAX);
    // ---- final drop (F2) --------------------------------------------------------------------
    let end = t.events.len() as i64;
    let dnop = Op::new(Code::DropTwin);
    for which in [1usize, 0usize] {
        if slots[which].is_some() {
            do_destroy(&mut run, &mut slots, which, end, &dnop);
        }
    }
    #[cfg(feature = "flavor-std")]
    caches::verif::set_sketch_clock(None);
    world::set_fault(0, 0);
    run.harvest(end, &dnop);
    // ledger: nothing may be alive after the last drop (fault-free runs)
    if !run.faulted && run.opts.oracles {
        let live = world::live_count();
        if live != 0 {
            let ls = world::live_serials();
            run.viol(
                "C04",
                "leak_after_drop",
                end,
                &dnop,
                format!("{} key/value objects are still alive after the cache was dropped (serials {:?})", live, &ls[..ls.len().min(8)]),
            );
        }
    }
    let calls = world::calls();
    let kind_counts = world::kind_counts();
    let kind_log = world::take_kinds();
    let faults_fired = world::faults_fired();
    let fault_kind = world::fault_kind_fired();
    let rep = alloc::end_run();
    if rep.overflow {
        harness_error = Some("allocator table overflow".to_string());
    }
    for (addr, off) in &rep.write_after_free {
        let prop = if run.faulted { "C18" } else { "C03" };
        run.viol(
            prop,
            "write_after_free",
            end,
            &dnop,
            format!("freed block {:#x} was written at offset {} after it was freed", addr, off),
        );
    }
    for e in &rep.errors {
        let prop = if run.faulted { "C18" } else { "C03" };
        run.viol(prop, e.kind, end, &dnop, format!("allocator: {} of block {:#x}", e.kind, e.addr));
    }
    if !run.faulted && run.opts.oracles && rep.leaked_blocks != 0 {
        run.viol(
            "C04",
            "heap_leak_after_drop",
            end,
            &dnop,
            format!(
                "{} heap blocks ({} bytes) allocated by the library are still allocated after the cache was dropped",
                rep.leaked_blocks, rep.leaked_bytes
            ),
        );
    }
    run.stats.add("lib_allocs", rep.total_allocs);
    if run.faulted {
        run.stats.add("post_fault_leaked_blocks", rep.leaked_blocks.max(0) as u64);
    }
    world::set_quiet(false);
    ExecResult {
        violations: run.v,
        log: run.log,
        log_hash: run.log_hash,
        stats: run.stats,
        calls,
        kind_counts,
        kind_log,
        faults_fired,
        fault_kind,
        fault_step: run.fault_step,
        fault_code: run.fault_code,
        harness_error,
        constructed,
    }
}

fn lockstep_only(_ev: &Event) -> bool {
    false
}

fn do_fork(run: &mut Run, slots: &mut [Option<Slot>], step: i64, op: &Op) {
    world::begin_event(run.budget);
    let r = {
        let a = slots[0].as_ref().unwrap();
        catch_unwind(AssertUnwindSafe(|| a.s.fork()))
    };
    world::end_event();
    match r {
        Ok(Some(twin)) => {
            run.stats.bump("forks");
            let shadow = slots[0].as_ref().unwrap().shadow.clone();
            let tlfu = slots[0].as_ref().unwrap().tlfu.clone();
            let sampled = slots[0].as_ref().unwrap().sampled.clone();
            slots[1] = Some(Slot {
                s: twin,
                shadow,
                alpha: None,
                tlfu,
                sampled,
                last_cb: Vec::new(),
            });
        }
        Ok(None) => {}
        Err(p) => {
            let (d, inj, wd) = panic_desc(p);
            if inj {
                run.faulted = true;
                run.fault_step.get_or_insert(step as usize);
                run.fault_code.get_or_insert(op.code);
            } else if wd {
                if !run.faulted {
                    run.viol("C05", "non_termination", step, op, "clone exceeded the step budget".into());
                }
            } else if !run.faulted {
                run.viol("C05", "op_panic", step, op, format!("clone panicked at {}", d));
            }
        }
    }
    run.harvest(step, op);
    // the original must be unchanged by being cloned
    check_unchanged(run, slots, 0, step, op, "C16", "clone_changes_original");
    if slots[1].is_some() {
        let a1 = {
            let s = slots[1].as_ref().unwrap();
            run.snapshot(s.s.as_ref(), step, op)
        };
        if let (Some(a1), Some(a0)) = (&a1, slots[0].as_ref().and_then(|s| s.alpha.as_ref())) {
            if run.opts.oracles && !run.faulted {
                check_structure(run, a1, step, op);
                if !a0.abs_eq(a1) {
                    let d = format!("original is {} but its clone is {}", a0.show(), a1.show());
                    run.viol("C16", "clone_state", step, op, d);
                    if a0.kind != Kind::Tlfu && a0.kind != Kind::Sampled {
                        let d = format!(
                            "the clone's recency order depends on the hash index iteration order: original {} clone {}",
                            a0.show(),
                            a1.show()
                        );
                        run.viol("C17", "clone_state", step, op, d);
                    }
                }
                // node addresses must be disjoint
                let mut addrs: BTreeSet<usize> = BTreeSet::new();
                for l in &a0.lists {
                    addrs.insert(l.head);
                    addrs.insert(l.tail);
                    for e in &l.ents {
                        addrs.insert(e.addr);
                    }
                }
                for l in &a1.lists {
                    for a in l.ents.iter().map(|e| e.addr).chain([l.head, l.tail]) {
                        if addrs.contains(&a) {
                            run.viol("C16", "clone_shares_nodes", step, op, format!("clone shares node {:#x} with the original", a));
                        }
                    }
                }
                check_c04_equation(run, slots, step, op, Some(a1));
            }
        }
        if let Some(s) = slots[1].as_mut() {
            s.alpha = a1;
        }
    }
}

fn check_unchanged(run: &mut Run, slots: &mut [Option<Slot>], which: usize, step: i64, op: &Op, prop: &str, oracle: &str) {
    if slots[which].is_none() {
        return;
    }
    let a = {
        let s = slots[which].as_ref().unwrap();
        run.snapshot(s.s.as_ref(), step, op)
    };
    if let (Some(a), Some(old)) = (&a, slots[which].as_ref().and_then(|s| s.alpha.as_ref())) {
        if run.opts.oracles && !run.faulted && !old.phys_eq(a) {
            let d = format!("the other object changed from {} to {}", old.show(), a.show());
            run.viol(prop, oracle, step, op, d);
        }
        if !run.faulted || true {
            let probs = a.problems();
            for p in probs {
                let pr = if run.faulted { "C18" } else { "C03" };
                run.viol(pr, "structure", step, op, p);
            }
        }
    }
    if let Some(s) = slots[which].as_mut() {
        if a.is_some() {
            s.alpha = a;
        }
    }
}

fn do_destroy(run: &mut Run, slots: &mut [Option<Slot>], which: usize, step: i64, op: &Op) {
    let mut sl = slots[which].take().unwrap();
    if run.poisoned {
        sl.s.leak();
        drop(sl);
        return;
    }
    world::begin_event(run.budget * 4);
    let r = catch_unwind(AssertUnwindSafe(|| sl.s.destroy()));
    world::end_event();
    if let Err(p) = r {
        let (d, inj, wd) = panic_desc(p);
        if inj {
            run.faulted = true;
            run.fault_step.get_or_insert(step.max(0) as usize);
            run.fault_code.get_or_insert(Code::DropTwin);
            run.stats.bump("fault_in_final_drop");
        } else if !wd && !run.faulted {
            run.viol("C05", "drop_panic", step, op, format!("dropping the cache panicked at {}", d));
        } else if !wd {
            run.stats.bump("post_fault_drop_panic");
        }
    }
    run.harvest(step, op);
    drop(sl);
}

fn est_script(code: Code) -> Vec<Vec<EstStep>> {
    match code {
        Code::Get | Code::GetMut => vec![
            vec![EstStep::Inc],
            vec![EstStep::TryReset, EstStep::Inc],
            vec![EstStep::Inc, EstStep::TryReset],
        ],
        Code::Purge => vec![vec![EstStep::Clear]],
        _ => vec![vec![]],
    }
}

/// one event against one subject, with all per-step oracles
fn do_event(run: &mut Run, slots: &mut [Option<Slot>], ti: usize, step: i64, ev: &Event) -> Val {
    if ev.op.code == Code::Fill {
        return do_fill(run, slots, ti, step, ev);
    }
    // boundary hashes of the count-min sketch are resolved against the real row seeds
    let resolved: Option<Op> = if run.t.header.kind == Kind::Tlfu
        && ev.op.fam >= 1
        && matches!(ev.op.code, Code::TInc | Code::TEst | Code::TContains)
    {
        slots[ti].as_ref().and_then(|s| s.alpha.as_ref()).and_then(|a| a.est.as_ref()).map(|e| {
            let mut o = ev.op.clone();
            let row = (o.fam as usize - 1) % 4;
            o.v = match e.seeds.get(row) {
                Some(seed) => seed ^ e.mask,
                None => e.mask,
            };
            o.fam = 0;
            o
        })
    } else {
        None
    };
    if resolved.is_some() {
        run.stats.bump("tlfu_boundary_hash_ops");
    }
    let op = resolved.as_ref().unwrap_or(&ev.op);
    let h = &run.t.header;
    let kind = h.kind;
    let oracles = run.opts.oracles && !run.faulted;
    // pre-state derived expectations that need the real estimator (W-TinyLFU)
    let mut expects: Option<Vec<model::Expect>> = None;
    let mut est_candidates: Vec<Option<caches::verif::TinyLFUState>> = Vec::new();
    if oracles {
        let sl = slots[ti].as_ref().unwrap();
        if let Some(pre) = sl.alpha.as_ref() {
            let sref = sl.s.as_ref();
            let estf = |k: u32| -> u64 { sref.estimate(k).unwrap_or(0) };
            let ctx = model::Ctx { est: &estf };
            let e = catch_unwind(AssertUnwindSafe(|| world::suspended(|| model::step(kind, pre, op, &ctx))));
            match e {
                Ok(e) => expects = e,
                Err(p) => {
                    let (d, _, _) = panic_desc(p);
                    run.viol("C05", "estimate_panic", step, op, format!("reading the estimator panicked at {}", d));
                }
            }
            if kind == Kind::Wtlfu {
                for sc in est_script(op.code) {
                    let r = catch_unwind(AssertUnwindSafe(|| world::suspended(|| sref.est_after(&sc, op.k))));
                    est_candidates.push(r.unwrap_or(None));
                }
            }
        }
    }
    let cb_id = slots[ti].as_ref().unwrap().s.cb_id();
    if let Some(id) = cb_id {
        let _ = world::cb_take(id);
    }
    let calls_before = world::calls();

    // ---- the real call ----------------------------------------------------------------------
    world::begin_event(run.budget);
    let r = {
        let sl = slots[ti].as_mut().unwrap();
        catch_unwind(AssertUnwindSafe(|| sl.s.apply(op)))
    };
    world::end_event();
    let was_faulted = run.faulted;
    let val = match r {
        Ok(v) => v,
        Err(p) => {
            let (d, inj, wd) = panic_desc(p);
            if inj {
                run.faulted = true;
                run.fault_step.get_or_insert(step as usize);
                run.fault_code.get_or_insert(op.code);
                run.stats.bump(&format!("fault_in_{}", op.code.name()));
            } else if wd {
                if !run.faulted {
                    run.viol(
                        "C05",
                        "non_termination",
                        step,
                        op,
                        format!("the operation made more than {} calls into user code without returning", run.budget),
                    );
                } else {
                    run.stats.bump("post_fault_hang");
                }
            } else if d == SOFT {
                run.soft = true;
                run.stats.bump("fault_fired:callback_failure");
                run.stats.bump(&format!("callback_failure_during:{}", op.code.name()));
            } else if !run.faulted {
                run.stats.bump(&format!("op_panic:{}", op.code.name()));
                run.viol("C05", "op_panic", step, op, format!("the operation panicked at {}", d));
            } else {
                run.stats.bump("post_fault_op_panic");
            }
            Val::Panic(d)
        }
    };
    if val == Val::Unsupported {
        run.stats.bump("unsupported_op");
    }
    run.harvest(step, op);
    let oracles = run.opts.oracles && !run.faulted;
    let cb_log: Vec<(u32, u64)> = match cb_id {
        Some(id) => world::cb_take(id),
        None => Vec::new(),
    };
    slots[ti].as_mut().unwrap().last_cb = cb_log.clone();

    // ---- post-state ---------------------------------------------------------------------------
    let post = {
        let s = slots[ti].as_ref().unwrap();
        run.snapshot(s.s.as_ref(), step, op)
    };
    let pre = slots[ti].as_mut().unwrap().alpha.take();
    if let Some(post) = &post {
        // memory-safety subset: always
        for p in post.problems() {
            let pr = if run.faulted { "C18" } else { "C03" };
            run.viol(pr, "structure", step, op, p);
        }
    }
    if let (true, Some(pre), Some(post)) = (oracles && !was_faulted, pre.as_ref(), post.as_ref()) {
        if val.is_panic() {
            // a panic where the policy model expects an outcome also breaks the policy property
            if let Some(exps) = &expects {
                if let Some(e) = exps.first() {
                    let prop = model_prop(kind, op);
                    let d = format!(
                        "pre {} ; op {} ; the operation panicked ({}) where the model expects {} [{}]",
                        pre.show(),
                        op.show(),
                        val.show(),
                        e.val.show(),
                        e.branch
                    );
                    run.viol(prop, "model_step_panic", step, op, d);
                }
            }
        }
        if val != Val::Unsupported && !val.is_panic() {
            // distinct (state, event, outcome) triples
            if run.opts.collect_distinct && kind.n_lists() > 0 {
                let hsh = crate::rng::mix(
                    crate::rng::mix(pre.shape_hash(), op.code as u64 ^ ((op.fam as u64) << 8)),
                    val.class() as u64 ^ ((post.shape_hash() & 0xFFFF) << 8),
                );
                run.stats.distinct.insert(hsh);
            }
            // policy model (C06..C10, C14 for iterators)
            if let Some(exps) = &expects {
                check_model(run, kind, exps, pre, post, &val, step, op, &est_candidates);
            }
            check_c01(run, h, post, step, op);
            if op.code == Code::Purge && !post.lists.iter().all(|l| l.ents.is_empty()) {
                let d = format!("purge left entries behind: {}", post.show());
                run.viol("C04", "purge_retains", step, op, d);
            }
            check_c02_event(run, slots, ti, pre, post, &val, step, op);
            check_c12(run, pre, post, &val, step, op);
            if op.code == Code::Iter {
                // C14, independent of the audit: a full forward and a full backward traversal must
                // be exact reverses, yield len() entries and no key twice
                let pr = {
                    let s = slots[ti].as_ref().unwrap();
                    catch_unwind(AssertUnwindSafe(|| world::suspended(|| s.s.iter_probe(op.list as usize))))
                };
                if let Ok(Some((f, b, len))) = pr {
                    let mut rb = b.clone();
                    rb.reverse();
                    let mut keys: Vec<u32> = f.iter().map(|e| e.0).collect();
                    keys.sort_unstable();
                    keys.dedup();
                    if f.len() != len || rb != f || keys.len() != f.len() {
                        let d = format!(
                            "list #{}: forward traversal {:?}, backward traversal {:?}, len() {}: not the same {} entries once each in opposite orders",
                            op.list, f, b, len, len
                        );
                        run.viol("C14", "traversal_inconsistent", step, op, d);
                    }
                    run.stats.bump("iter_traversal_probes");
                }
            }
            if op.is_read_only() {
                if !pre.phys_eq(post) {
                    let d = format!("read-only call changed the state from {} to {}", pre.show(), post.show());
                    run.viol("C13", "readonly_changes_state", step, op, d);
                }
                run.stats.bump("readonly_checked");
            }
            if cb_id.is_some() {
                check_c15(run, &cb_log, pre, post, &val, step, op);
            }
            probes(run, kind, pre, post, op, &val);
        }
    }
    let _ = calls_before;
    if run.soft && val.is_panic() && cb_id.is_some() {
        // the callback history of the aborted operation is still judged
        if let (Some(pre), Some(post)) = (pre.as_ref(), post.as_ref()) {
            check_c15(run, &cb_log, pre, post, &val, step, op);
        }
    }
    if val.is_panic() && !run.faulted && !run.soft {
        let sprop = match kind {
            Kind::Tlfu => "C11",
            Kind::Sampled => "C20",
            _ => "",
        };
        if !sprop.is_empty() && slots[ti].as_ref().map(|s| s.tlfu.is_some() || s.sampled.is_some()).unwrap_or(false) {
            let d = format!("op {} panicked ({}) where the shadow model expects a result", op.show(), val.show());
            run.viol(sprop, "shadow_step_panic", step, op, d);
        }
    }
    if val.is_panic() && !run.faulted {
        // the operation stopped half-way: the caller-side histories are no longer trustworthy
        let sl = slots[ti].as_mut().unwrap();
        sl.tlfu = None;
        sl.sampled = None;
        if let Some(post) = post.as_ref() {
            for (_, s) in sl.shadow.iter_mut() {
                *s = Sh::Released;
            }
            for l in &post.lists {
                for e in &l.ents {
                    sl.shadow.insert(e.ident, Sh::Stored(e.val));
                }
            }
        }
    }
    // shadow models of the two non-cache subjects (C11, C20)
    if oracles && !was_faulted && !val.is_panic() && val != Val::Unsupported {
        if let Some(post) = post.as_ref() {
            let sl = slots[ti].as_mut().unwrap();
            let mut stats = std::mem::take(&mut run.stats);
            let pre_shape = sl.tlfu.as_ref().map(|s| s.shape()).or_else(|| sl.sampled.as_ref().map(|s| s.shape()));
            if let (Some(ps), true) = (pre_shape, run.opts.collect_distinct) {
                let hsh = crate::rng::mix(crate::rng::mix(ps, op.code as u64 ^ ((op.fam as u64) << 8)), val.class() as u64);
                stats.distinct.insert(hsh);
            }
            let r = if let Some(sh) = sl.tlfu.as_mut() {
                let s = sl.s.as_mut();
                Some(("C11", catch_unwind(AssertUnwindSafe(|| world::suspended(|| sh.step(s, op, &val, post, &mut stats))))))
            } else if let Some(sh) = sl.sampled.as_mut() {
                let s = sl.s.as_mut();
                Some(("C20", catch_unwind(AssertUnwindSafe(|| world::suspended(|| sh.step(s, op, &val, post, &mut stats))))))
            } else {
                None
            };
            run.stats = stats;
            match r {
                Some((prop, Ok(errs))) => {
                    for (o, d) in errs {
                        run.viol(prop, o, step, op, d);
                    }
                }
                Some((_, Err(p))) => {
                    let (d, _, _) = panic_desc(p);
                    run.viol("C05", "op_panic", step, op, format!("a read-only probe (estimate / contains / room_left) panicked at {}", d));
                }
                None => {}
            }
        }
    }
    slots[ti].as_mut().unwrap().alpha = post;
    if oracles && !was_faulted {
        check_c04_equation(run, slots, step, op, None);
        if run.t.probe_all && !ev.observer {
            probe_all(run, slots, ti, step, op);
        }
    }
    val
}

/// Macro event of the scale shapes (`Code::Fill`): many real calls on a large cache. Each call is
/// judged against a caller-side ledger of the resident entries built from the results alone (no
/// snapshot per call); the whole is judged by the snapshot that follows: structure (C03), bounds
/// (C01), conservation (C12/C02: the resident set is exactly what the results said) and the
/// object ledger (C04). The policy models do not describe it; the events after it are modelled
/// from the observed post-state as usual.
fn do_fill(run: &mut Run, slots: &mut [Option<Slot>], ti: usize, step: i64, ev: &Event) -> Val {
    let op = &ev.op;
    let kind = run.t.header.kind;
    let oracles = run.opts.oracles && !run.faulted;
    let pre = slots[ti].as_mut().unwrap().alpha.take();
    // the ledger follows every *retained* entry: in 2Q and ARC a put reports an entry when it leaves
    // the ghost list, not when it turns into a ghost
    let mut res: std::collections::HashMap<u32, u64> = std::collections::HashMap::new();
    let have_res = pre.is_some();
    if let Some(p) = &pre {
        for l in p.lists.iter() {
            for e in &l.ents {
                res.insert(e.ident, e.val);
            }
        }
    }
    let ghosty = matches!(kind, Kind::TwoQ | Kind::Arc);
    // keys whose retention the results leave open (2Q/ARC `remove` of a ghost, L3)
    let mut open: BTreeSet<u32> = BTreeSet::new();
    let mut distinct_put: BTreeSet<u32> = BTreeSet::new();
    let cb_id = slots[ti].as_ref().unwrap().s.cb_id();
    if let Some(id) = cb_id {
        let _ = world::cb_take(id);
    }
    let n = op.n.max(0) as u64;
    let put_like = matches!(op.fam, 0 | 2 | 4);
    let subs: &[Code] = match op.fam {
        0 => &[Code::Put],
        1 => &[Code::Get],
        2 | 4 => &[Code::Put, Code::Get],
        _ => &[Code::Remove],
    };
    // fam 4: the read trails the write by `w` keys (an entry is read after it has left the window)
    let lag = if op.fam == 4 { op.w.min(u32::MAX as u64) as u32 } else { 0 };
    // put / update / evicted / hit / miss / removed
    let mut counts = [0i64; 6];
    let mut errs: Vec<(&'static str, &'static str, String)> = Vec::new();
    let mut aborted = false;
    run.stats.bump("fill_events");
    'outer: for i in 0..n {
        let k = op.k.wrapping_add((i as u32).wrapping_mul(op.k2));
        for c in subs {
            let mut so = Op::new(*c);
            so.k = k;
            if *c == Code::Put {
                so.v = op.v + i;
            } else if lag != 0 {
                if (i as u32) < lag {
                    continue;
                }
                so.k = k.wrapping_sub(lag.wrapping_mul(op.k2));
            }
            let k = so.k;
            run.stats.bump("fill_calls");
            world::begin_event(run.budget);
            let r = {
                let sl = slots[ti].as_mut().unwrap();
                catch_unwind(AssertUnwindSafe(|| sl.s.apply(&so)))
            };
            world::end_event();
            let val = match r {
                Ok(v) => v,
                Err(p) => {
                    let (d, inj, wd) = panic_desc(p);
                    if inj {
                        run.faulted = true;
                        run.fault_step.get_or_insert(step as usize);
                        run.fault_code.get_or_insert(op.code);
                    } else if wd {
                        if !run.faulted {
                            let d = format!("call #{} of the fill ({}) made more than {} calls into user code without returning", i, so.show(), run.budget);
                            run.viol("C05", "non_termination", step, op, d);
                        }
                    } else if d == SOFT {
                        run.soft = true;
                        run.stats.bump("fault_fired:callback_failure");
                    } else if !run.faulted {
                        run.viol("C05", "op_panic", step, op, format!("call #{} of the fill ({}) panicked at {}", i, so.show(), d));
                    }
                    aborted = true;
                    break 'outer;
                }
            };
            if !(oracles && have_res) || errs.len() >= 4 {
                continue;
            }
            let mut bad = |p: &'static str, o: &'static str, d: String| errs.push((p, o, format!("call #{} of the fill ({} -> {}): {}", i, so.show(), val.show(), d)));
            match (*c, &val) {
                (Code::Put, Val::Put(pr)) => {
                    let was = res.insert(k, so.v);
                    let was = if open.remove(&k) { None } else { was };
                    // ARC may have forgotten a ghost silently: "retained before" is not known
                    let was_known = if kind == Kind::Arc { None } else { was };
                    distinct_put.insert(k);
                    match pr {
                        PutRes::Put => {
                            counts[0] += 1;
                            if let Some(o) = was_known {
                                bad("C12", "fill_put_result", format!("the key was resident with v{} but the put reports a brand-new key", o));
                            }
                        }
                        PutRes::Update(old) => {
                            counts[1] += 1;
                            if let Some(o) = was {
                                if o != *old {
                                    bad("C12", "fill_put_result", format!("Update carries v{} but the stored value was v{}", old, o));
                                }
                            }
                        }
                        PutRes::Evicted(ek, evv) | PutRes::EvictedAndUpdate(ek, evv, _) => {
                            counts[2] += 1;
                            if let (PutRes::EvictedAndUpdate(_, _, u), Some(o)) = (pr, was) {
                                if o != *u {
                                    bad("C12", "fill_put_result", format!("the update part carries v{} but the stored value was v{}", u, o));
                                }
                            }
                            if let (PutRes::Evicted(..), Some(o)) = (pr, was_known) {
                                if *ek != k {
                                    bad("C12", "fill_put_result", format!("the key was resident with v{} but the put does not report an update", o));
                                }
                            }
                            let was_open = open.remove(ek);
                            match res.remove(ek) {
                                Some(x) if x == *evv => {}
                                _ if was_open => {}
                                Some(x) => bad("C12", "fill_put_result", format!("reports k{} evicted with v{} but its stored value was v{}", ek, evv, x)),
                                None => bad("C12", "fill_put_result", format!("reports k{} evicted, which was not retained", ek)),
                            }
                        }
                    }
                }
                (Code::Get, Val::V(x)) => {
                    counts[3] += 1;
                    if res.get(&k) != Some(x) && !open.contains(&k) {
                        bad("C02", "fill_lookup", format!("the caller-side history has {:?} for this key", res.get(&k)));
                    }
                }
                (Code::Get, Val::None) => {
                    counts[4] += 1;
                    // (a retained key of 2Q/ARC may be a ghost: not resident)
                    if let (Some(o), false) = (res.get(&k), ghosty) {
                        bad("C02", "fill_lookup", format!("reported absent but v{} was stored and never reported released", o));
                    }
                }
                (Code::Remove, Val::V(x)) => {
                    counts[5] += 1;
                    if let Some(o) = res.remove(&k) {
                        if o != *x && !open.contains(&k) {
                            bad("C02", "fill_lookup", format!("remove handed back v{} but v{} was stored", x, o));
                        }
                    }
                    if ghosty {
                        open.insert(k);
                    }
                }
                (Code::Remove, Val::None) => {
                    if let Some(o) = res.remove(&k) {
                        if !ghosty {
                            bad("C02", "fill_lookup", format!("remove found nothing but v{} was stored and never reported released", o));
                        }
                    }
                    if ghosty {
                        open.insert(k);
                    }
                }
                _ => {}
            }
        }
    }
    for (p, o, d) in errs {
        run.viol(p, o, step, op, d);
    }
    run.harvest(step, op);
    let oracles = run.opts.oracles && !run.faulted;
    let cb_log: Vec<(u32, u64)> = match cb_id {
        Some(id) => world::cb_take(id),
        None => Vec::new(),
    };
    slots[ti].as_mut().unwrap().last_cb = cb_log;
    let post = {
        let s = slots[ti].as_ref().unwrap();
        run.snapshot(s.s.as_ref(), step, op)
    };
    if let Some(post) = &post {
        for p in post.problems() {
            let pr = if run.faulted { "C18" } else { "C03" };
            run.viol(pr, "structure", step, op, p);
        }
        if oracles && !aborted && !run.soft {
            let h = &run.t.header;
            check_c01(run, h, post, step, op);
            if have_res {
                let mut now: std::collections::HashMap<u32, u64> = std::collections::HashMap::new();
                for l in post.lists.iter() {
                    for e in &l.ents {
                        now.insert(e.ident, e.val);
                    }
                }
                let mut lost: Vec<(u32, u64)> = res.iter().filter(|(k, _)| !now.contains_key(k) && !open.contains(k)).map(|(k, v)| (*k, *v)).collect();
                let mut phantom: Vec<(u32, u64)> = now.iter().filter(|(k, _)| !res.contains_key(k) && !open.contains(k)).map(|(k, v)| (*k, *v)).collect();
                let mut wrong: Vec<(u32, u64, u64)> =
                    now.iter().filter(|(k, _)| !open.contains(k)).filter_map(|(k, v)| res.get(k).filter(|o| *o != v).map(|o| (*k, *v, *o))).collect();
                if kind == Kind::Arc {
                    // ARC may forget ghosts silently: only the resident entries are conserved. A fill
                    // of puts over at least `size` distinct keys must leave the cache full.
                    lost.clear();
                    let size = post.scalars.first().copied().unwrap_or(0).max(0) as usize;
                    if put_like && distinct_put.len() >= size && post.resident_count() != size {
                        let d = format!("{} distinct keys were put into a cache of size {} but only {} entries are resident afterwards", distinct_put.len(), size, post.resident_count());
                        run.viol("C12", "fill_silent_loss", step, op, d);
                    }
                }
                lost.sort_unstable();
                phantom.sort_unstable();
                wrong.sort_unstable();
                if !lost.is_empty() {
                    let d = format!(
                        "{} entries left the cache during the fill without being reported by any result (first: {:?}); {} retained, the results account for {}",
                        lost.len(),
                        &lost[..lost.len().min(6)],
                        now.len(),
                        res.len()
                    );
                    run.viol(if put_like { "C12" } else { "C02" }, "fill_silent_loss", step, op, d);
                }
                if !phantom.is_empty() {
                    let d = format!(
                        "{} entries are resident after the fill although the results reported them released or never stored (first: {:?})",
                        phantom.len(),
                        &phantom[..phantom.len().min(6)]
                    );
                    run.viol("C02", "fill_phantom", step, op, d);
                }
                if !wrong.is_empty() {
                    let d = format!("{} resident entries hold a value other than the one most recently stored (first (key, holds, stored): {:?})", wrong.len(), &wrong[..wrong.len().min(6)]);
                    run.viol("C02", "fill_wrong_value", step, op, d);
                }
                run.stats.bump("fill_conservation_checked");
            }
        }
        // the caller-side history restarts from what is observed now
        let sl = slots[ti].as_mut().unwrap();
        for (_, s) in sl.shadow.iter_mut() {
            *s = Sh::Released;
        }
        for l in &post.lists {
            for e in &l.ents {
                sl.shadow.insert(e.ident, Sh::Stored(e.val));
            }
        }
    }
    slots[ti].as_mut().unwrap().alpha = post;
    if oracles && !aborted && !run.soft {
        check_c04_equation(run, slots, step, op, None);
    }
    Val::List(counts.iter().map(|c| Val::Num(*c)).collect())
}

fn check_structure(run: &mut Run, a: &Alpha, step: i64, op: &Op) {
    for p in a.problems() {
        run.viol("C03", "structure", step, op, p);
    }
}

fn check_ctor_state(run: &mut Run, h: &Header, a: &Alpha) {
    let nop = Op::new(Code::Len);
    // C08: quota and ghost bound are floor(size x ratio)
    if h.kind == Kind::TwoQ && h.ratios.len() == 2 {
        let size = h.sizes[0] as f64;
        let rq = (size * h.ratios[0]).floor() as i64;
        let gq = (size * h.ratios[1]).floor() as i64;
        if a.scalars.len() >= 3 && (a.scalars[1] != rq || a.scalars[2] != gq) {
            run.viol(
                "C08",
                "quota",
                -1,
                &nop,
                format!(
                    "size {} ratios {:?}: recent quota {} ghost bound {} but floor(size x ratio) is {} / {}",
                    h.sizes[0], h.ratios, a.scalars[1], a.scalars[2], rq, gq
                ),
            );
        }
    }
    // the object must have been built with the configured sizes (C01: "configured bound")
    let conversion = h.kind == Kind::Lru && h.random_state && !h.with_cb && h.ctor >= 1;
    let want: Option<Vec<i64>> = match h.kind {
        Kind::Lru if !conversion => Some(vec![h.sizes[0] as i64]),
        Kind::Slru => Some(vec![h.sizes[0] as i64, h.sizes[1] as i64]),
        Kind::Arc => Some(vec![h.sizes[0] as i64, 0]),
        // `WTinyLFUCache::new(size, samples)` derives its segment sizes by ratios no property
        // pins down: only explicitly configured sizes are compared
        Kind::Wtlfu if !(h.random_state && h.ctor != 0) => Some(vec![h.sizes[0] as i64, h.sizes[1] as i64, h.sizes[2] as i64]),
        Kind::Wtlfu => None,
        _ => None,
    };
    if let Some(w) = want {
        if a.scalars != w {
            run.viol(
                "C01",
                "configured_bounds",
                -1,
                &nop,
                format!("constructed with sizes {:?} but the object reports {:?}: {}", w, a.scalars, a.show()),
            );
        }
    }
    if h.kind == Kind::TwoQ && a.scalars.first() != Some(&(h.sizes[0] as i64)) {
        run.viol("C01", "configured_bounds", -1, &nop, format!("constructed with size {} but the object reports {:?}", h.sizes[0], a.scalars));
    }
    if let Some(e) = &a.est {
        // sample size: via the builder paths it is the configured one; w starts at 0
        let samples_known = !(h.kind == Kind::Wtlfu && h.random_state && h.ctor != 0) || true;
        if samples_known && (e.samples != h.samples || e.w != 0) {
            run.viol(
                "C11",
                "configured_samples",
                -1,
                &nop,
                format!("constructed with sample size {} but the estimator reports samples={} w={}", h.samples, e.samples, e.w),
            );
        }
    }
    if conversion {
        // L8: every distinct key of the input is retained, capacity >= 1
        let n = h.sizes[0] as u32;
        let want: Vec<u32> = if h.ctor == 7 && n > 3 { (1..=3).collect() } else { (1..=n).collect() };
        let mut got: Vec<u32> = a.lists[0].ents.iter().map(|e| e.ident).collect();
        got.sort_unstable();
        if got != want {
            // not a violation: C05 only demands that conversions never panic (L8)
            run.stats.bump("conversion_truncated");
        }
        run.stats.bump("conversion_ctor");
        // C02: a conversion stores its pairs in order, so a key given twice holds its *last* value
        // (pair i is (ident(i), v_{CONV_VAL_BASE+i}); the last `dup` pairs repeat the first keys).
        // Arrays longer than 3 are cut by the driver: not judged.
        if !(h.ctor == 7 && n > 3) {
            let dup = h.sizes.get(1).copied().unwrap_or(0) as u32;
            let first_dup = n - dup.min(n);
            let ident = |i: u32| if i > first_dup { i - first_dup } else { i };
            for e in a.lists[0].ents.iter() {
                if let Some(last) = (1..=n).rev().find(|&i| ident(i) == e.ident) {
                    let want = crate::subj::lru::CONV_VAL_BASE + last as u64;
                    if e.val != want {
                        run.viol(
                            "C02",
                            "conversion_stale_value",
                            -1,
                            &nop,
                            format!(
                                "conversion (constructor code {}) of {} pairs whose last {} repeat the first keys: key k{} holds v{} but the value stored last for it is v{}",
                                h.ctor, n, dup, e.ident, e.val, want
                            ),
                        );
                        break;
                    }
                    run.stats.bump("conversion_value_checked");
                }
            }
        }
    } else if !a.lists.iter().all(|l| l.ents.is_empty()) {
        run.viol("C01", "fresh_not_empty", -1, &nop, "a freshly constructed cache is not empty".into());
    }
}

/// C01: capacity bounds and size accounting, from the observed state alone
fn check_c01(run: &mut Run, _h: &Header, a: &Alpha, step: i64, op: &Op) {
    let k = a.kind;
    if k.n_lists() == 0 {
        return;
    }
    let res = a.resident_count();
    if res > a.pub_cap {
        run.viol("C01", "over_capacity", step, op, format!("{} resident entries but cap() is {}: {}", res, a.pub_cap, a.show()));
    }
    if a.pub_len != res {
        run.viol("C01", "len_mismatch", step, op, format!("len() is {} but {} entries are resident: {}", a.pub_len, res, a.show()));
    }
    let all_empty = a.lists.iter().all(|l| l.ents.is_empty());
    if a.pub_is_empty != all_empty {
        run.viol(
            "C01",
            "is_empty_mismatch",
            step,
            op,
            format!("is_empty() is {} but retained entries exist = {}: {}", a.pub_is_empty, !all_empty, a.show()),
        );
    }
    // per-partition bounds
    let sc = &a.scalars;
    let bounds: Vec<usize> = match k {
        Kind::Lru => vec![sc[0] as usize],
        Kind::Slru => vec![sc[0] as usize, sc[1] as usize],
        Kind::TwoQ => {
            // the *configured* ghost bound: floor(size x ghost ratio)
            let g = match _h.ratios.get(1) {
                Some(gr) if _h.kind == Kind::TwoQ => ((_h.sizes[0] as f64) * gr).floor() as usize,
                _ => sc[2] as usize,
            };
            vec![sc[0] as usize, sc[0] as usize, g]
        }
        Kind::Arc => vec![sc[0] as usize; 4],
        Kind::Wtlfu => vec![sc[0] as usize, sc[1] as usize, sc[2] as usize],
        _ => vec![],
    };
    for (i, b) in bounds.iter().enumerate() {
        if a.lists[i].ents.len() > *b {
            run.viol(
                "C01",
                "partition_over_bound",
                step,
                op,
                format!("{} holds {} entries, bound {}: {}", k.list_name(i), a.lists[i].ents.len(), b, a.show()),
            );
        }
    }
    if matches!(k, Kind::TwoQ | Kind::Arc) && a.lists[0].ents.len() + a.lists[1].ents.len() > sc[0] as usize {
        run.viol("C01", "partition_over_bound", step, op, format!("recent+frequent exceeds size {}: {}", sc[0], a.show()));
    }
    if k == Kind::Arc && (sc[1] < 0 || sc[1] > sc[0]) {
        run.viol("C09", "p_out_of_range", step, op, format!("p = {} outside 0..={}", sc[1], sc[0]));
    }
    // a key in at most one partition
    let mut seen: BTreeMap<u32, usize> = BTreeMap::new();
    for (i, l) in a.lists.iter().enumerate() {
        for e in &l.ents {
            if let Some(j) = seen.insert(e.ident, i) {
                run.viol(
                    "C01",
                    "key_in_two_partitions",
                    step,
                    op,
                    format!("key k{} is held in {} and in {}: {}", e.ident, k.list_name(j), k.list_name(i), a.show()),
                );
            }
        }
    }
}

fn model_prop(kind: Kind, op: &Op) -> &'static str {
    if op.code == Code::Iter {
        "C14"
    } else {
        match kind {
            Kind::Lru => "C06",
            Kind::Slru => "C07",
            Kind::TwoQ => "C08",
            Kind::Arc => "C09",
            Kind::Wtlfu => "C10",
            _ => "",
        }
    }
}

#[allow(clippy::too_many_arguments)]
fn check_model(
    run: &mut Run,
    kind: Kind,
    exps: &[model::Expect],
    pre: &Alpha,
    post: &Alpha,
    val: &Val,
    step: i64,
    op: &Op,
    est_candidates: &[Option<caches::verif::TinyLFUState>],
) {
    let prop = model_prop(kind, op);
    if prop.is_empty() {
        return;
    }
    let ms = MState::of(post);
    // L5 (corrected after a false alarm, see DESIGN 8): ARC trims its ghost lists to the target
    // sizes right after an eviction, so even the entry that was just evicted may be forgotten at
    // once; nothing is required of a ghost list beyond order, membership and its bound.
    let front_req: Vec<(usize, (u32, u64))> = Vec::new();
    let mut errs: Vec<String> = Vec::new();
    let mut ok = false;
    for e in exps {
        match model::matches(e, val, &ms, &front_req) {
            Ok(()) => {
                // estimator effect
                let est_ok = match (&e.est, &post.est, &pre.est) {
                    (_, None, _) | (_, _, None) => true,
                    (EstEffect::Untouched, Some(po), Some(pr)) => po == pr,
                    (EstEffect::Access(_), Some(po), _) | (EstEffect::Cleared, Some(po), _) => {
                        est_candidates.iter().flatten().any(|c| c == po)
                    }
                };
                if est_ok {
                    ok = true;
                    run.stats.bump(&format!("branch:{}:{}", kind.name(), e.branch));
                    break;
                } else {
                    errs.push(format!(
                        "[{}] lists and result match but the frequency estimator is not in an admissible state ({:?})",
                        e.branch, e.est
                    ));
                }
            }
            Err(s) => errs.push(format!("[{}] {}", e.branch, s)),
        }
    }
    if !ok {
        let d = format!(
            "pre {} ; op {} ; observed result {} and post {} ; not admitted by the model: {}",
            pre.show(),
            op.show(),
            val.show(),
            post.show(),
            errs.join(" | ")
        );
        run.viol(prop, "model_step", step, op, d);
    }
}

/// C12: policy-independent delta oracle on every put-like call
fn check_c12(run: &mut Run, pre: &Alpha, post: &Alpha, val: &Val, step: i64, op: &Op) {
    let pr = match (op.code, val) {
        (Code::Put | Code::PutProtected, Val::Put(p)) => p.clone(),
        (Code::PeekOrPut | Code::PeekMutOrPut | Code::ContainsOrPut, Val::Pair(_, b)) => match &**b {
            Val::Put(p) => p.clone(),
            _ => return,
        },
        _ => return,
    };
    run.stats.bump("c12_puts_checked");
    let k = op.k;
    let kind = pre.kind;
    let retained_pre: BTreeMap<u32, u64> = pre.lists.iter().flat_map(|l| l.ents.iter().map(|e| (e.ident, e.val))).collect();
    let retained_post: BTreeMap<u32, u64> = post.lists.iter().flat_map(|l| l.ents.iter().map(|e| (e.ident, e.val))).collect();
    let was = retained_pre.get(&k).copied();
    let cap0 = pre.pub_cap == 0;
    let (upd, evd): (Option<u64>, Option<(u32, u64)>) = match &pr {
        PutRes::Put => (None, None),
        PutRes::Update(o) => (Some(*o), None),
        PutRes::Evicted(a, b) => (None, Some((*a, *b))),
        PutRes::EvictedAndUpdate(a, b, o) => (Some(*o), Some((*a, *b))),
    };
    let bad = |run: &mut Run, o: &str, d: String| {
        let d = format!("{} [pre {} ; op {} ; result {} ; post {}]", d, pre.show(), op.show(), val.show(), post.show());
        run.viol("C12", o, step, op, d);
    };
    // Update <=> key was retained, carrying its stored value
    match (was, upd) {
        (Some(old), Some(o)) if old != o => bad(run, "update_wrong_old", format!("Update carries v{} but the stored value was v{}", o, old)),
        (Some(old), None) => bad(run, "update_missing", format!("key k{} was retained with v{} but the result does not report an update", k, old)),
        (None, Some(o)) => bad(run, "update_spurious", format!("result reports an update (v{}) but key k{} was not retained", o, k)),
        _ => {}
    }
    // bounced pair (capacity 0)
    let bounced = evd == Some((k, op.v)) && was.is_none();
    if bounced {
        if !cap0 && kind == Kind::Lru {
            bad(run, "bounced_with_capacity", "the new pair itself was handed back although the cache has capacity".into());
        }
        if retained_post.contains_key(&k) {
            bad(run, "bounced_but_resident", "the new pair was handed back as Evicted but the key is resident".into());
        }
    } else {
        // after put(k, v): k resident with value v
        match post.resident(k) {
            Some((_, e)) if e.val == op.v => {}
            Some((_, e)) => bad(run, "put_value_lost", format!("after put the key holds v{} instead of v{}", e.val, op.v)),
            None => bad(run, "put_not_resident", format!("after put the key k{} is not resident", k)),
        }
        if let Some((ek, evv)) = evd {
            match retained_pre.get(&ek) {
                Some(v) if *v == evv => {}
                Some(v) => bad(run, "evicted_wrong_value", format!("Evicted carries (k{},v{}) but that key stored v{}", ek, evv, v)),
                None => bad(run, "evicted_unknown", format!("Evicted carries (k{},v{}) which was not retained", ek, evv)),
            }
            if retained_post.contains_key(&ek) {
                bad(run, "evicted_still_retained", format!("k{} was reported evicted but is still retained", ek));
            }
            if ek == k {
                bad(run, "evicted_is_put_key", "the evicted key is the key being put".into());
            }
        }
    }
    // set delta: R' = R + k - e (ARC may additionally lose ghosts silently)
    let nres = kind.resident_lists();
    let mut arc_victims = 0;
    for (id, v) in &retained_pre {
        if *id == k || Some(*id) == evd.map(|e| e.0) {
            continue;
        }
        if !retained_post.contains_key(id) {
            let was_ghost = pre.lists.iter().skip(nres).any(|l| l.find(*id).is_some());
            if kind == Kind::Arc && was_ghost {
                continue;
            }
            // ARC: the victim of a full cache becomes a ghost and may be trimmed in the same put
            if kind == Kind::Arc && !was_ghost && was.is_none() && pre.resident_count() >= pre.pub_cap && arc_victims == 0 {
                arc_victims += 1;
                continue;
            }
            bad(run, "silent_loss", format!("entry (k{},v{}) left the cache during this put without being reported", id, v));
        }
    }
    for id in retained_post.keys() {
        if *id != k && !retained_pre.contains_key(id) {
            bad(run, "spurious_entry", format!("entry k{} appeared out of nowhere", id));
        }
    }
}

/// C02 on the event's own result (policy independent)
#[allow(clippy::too_many_arguments)]
fn check_c02_event(run: &mut Run, slots: &mut [Option<Slot>], ti: usize, pre: &Alpha, post: &Alpha, val: &Val, step: i64, op: &Op) {
    if pre.kind.n_lists() == 0 {
        return;
    }
    let shadow = &mut slots[ti].as_mut().unwrap().shadow;
    let k = op.k;
    let mut errs: Vec<(&'static str, String)> = Vec::new();
    let expect_val = |shadow: &BTreeMap<u32, Sh>, key: u32, v: u64, what: &str, errs: &mut Vec<(&'static str, String)>| {
        match shadow.get(&key) {
            Some(Sh::Stored(s)) if *s == v => {}
            Some(Sh::Stored(s)) => errs.push(("wrong_value", format!("{} returned v{} for k{} but the value most recently stored is v{}", what, v, key, s))),
            Some(Sh::Released) => errs.push(("released_key_resident", format!("{} returned v{} for k{} which was released and not put again", what, v, key))),
            None => errs.push(("never_put_resident", format!("{} returned v{} for k{} which was never put", what, v, key))),
        }
    };
    use Code::*;
    let resident_pre = pre.resident(k).map(|(_, e)| e.val);
    match (op.code, val) {
        (Put | PutProtected, Val::Put(p)) => {
            match p {
                PutRes::Evicted(ek, ev) | PutRes::EvictedAndUpdate(ek, ev, _) => {
                    if !(*ek == k && *ev == op.v) {
                        expect_val(shadow, *ek, *ev, "put (evicted pair)", &mut errs);
                    }
                    shadow.insert(*ek, Sh::Released);
                }
                _ => {}
            }
            let bounced = matches!(p, PutRes::Evicted(ek, ev) if *ek == k && *ev == op.v);
            if !bounced {
                shadow.insert(k, Sh::Stored(op.v));
            }
        }
        (Get | GetMut | Peek | PeekMut, v) => {
            let got = match v {
                Val::V(x) => Some(*x),
                _ => None,
            };
            if let Some(x) = got {
                expect_val(shadow, k, x, op.code.name(), &mut errs);
            }
            if got.is_some() != resident_pre.is_some() {
                errs.push((
                    "residency_disagreement",
                    format!("{} says resident={} but the key is {} the resident lists", op.code.name(), got.is_some(), if resident_pre.is_some() { "in" } else { "not in" }),
                ));
            }
            if got.is_some() && op.w != 0 && matches!(op.code, GetMut | PeekMut) {
                shadow.insert(k, Sh::Stored(op.w));
            }
        }
        (Contains, Val::Bool(b)) => {
            if *b != resident_pre.is_some() {
                errs.push(("residency_disagreement", format!("contains says {} but the key is {} the resident lists", b, if resident_pre.is_some() { "in" } else { "not in" })));
            }
            if *b && !matches!(shadow.get(&k), Some(Sh::Stored(_))) {
                errs.push(("released_key_resident", format!("contains(k{}) is true for a key that is not stored", k)));
            }
        }
        (Remove, v) => {
            match v {
                Val::V(x) => {
                    expect_val(shadow, k, *x, "remove", &mut errs);
                }
                _ => {
                    if resident_pre.is_some() {
                        errs.push(("remove_lost_value", format!("remove(k{}) returned None although the key was resident", k)));
                    }
                }
            }
            if matches!(v, Val::V(_)) || resident_pre.is_some() {
                shadow.insert(k, Sh::Released);
            }
            if post.resident(k).is_some() {
                errs.push(("remove_left_resident", format!("k{} is still resident after remove", k)));
            }
        }
        (RemoveLru | SegRemoveLru, Val::KV(ek, ev)) => {
            expect_val(shadow, *ek, *ev, op.code.name(), &mut errs);
            shadow.insert(*ek, Sh::Released);
        }
        (Purge, _) => {
            for (_, s) in shadow.iter_mut() {
                *s = Sh::Released;
            }
        }
        (Resize, _) => {
            for l in &pre.lists {
                for e in &l.ents {
                    if post.retained(e.ident).is_none() {
                        shadow.insert(e.ident, Sh::Released);
                    }
                }
            }
        }
        (GetLru | GetMru | PeekLru | PeekMru | SegPeekLru | SegPeekMru, Val::KV(ek, ev)) => {
            expect_val(shadow, *ek, *ev, op.code.name(), &mut errs);
        }
        (GetLruMut | GetMruMut | PeekLruMut | PeekMruMut | SegPeekLruMut | SegPeekMruMut, Val::KV(ek, ev)) => {
            expect_val(shadow, *ek, *ev, op.code.name(), &mut errs);
            if op.w != 0 {
                shadow.insert(*ek, Sh::Stored(op.w));
            }
        }
        (PeekOrPut | PeekMutOrPut | ContainsOrPut, Val::Pair(a, b)) => {
            let hit = match &**a {
                Val::V(x) => {
                    expect_val(shadow, k, *x, op.code.name(), &mut errs);
                    true
                }
                Val::Bool(true) => true,
                _ => false,
            };
            if hit != resident_pre.is_some() {
                errs.push(("residency_disagreement", format!("{} hit={} but resident={}", op.code.name(), hit, resident_pre.is_some())));
            }
            if hit && op.code == PeekMutOrPut && op.w != 0 {
                shadow.insert(k, Sh::Stored(op.w));
            }
            if let Val::Put(p) = &**b {
                match p {
                    PutRes::Evicted(ek, ev) | PutRes::EvictedAndUpdate(ek, ev, _) => {
                        if !(*ek == k && *ev == op.v) {
                            expect_val(shadow, *ek, *ev, "put (evicted pair)", &mut errs);
                        }
                        shadow.insert(*ek, Sh::Released);
                    }
                    _ => {}
                }
                let bounced = matches!(p, PutRes::Evicted(ek, ev) if *ek == k && *ev == op.v);
                if !bounced {
                    shadow.insert(k, Sh::Stored(op.v));
                }
            }
        }
        (Iter, _) => {
            // writes through mutable iterators: take the new values from the observed state
            if op.w != 0 {
                for l in &post.lists {
                    for e in &l.ents {
                        if e.val >= op.w && e.val < op.w + 64 {
                            shadow.insert(e.ident, Sh::Stored(e.val));
                        }
                    }
                }
            }
        }
        _ => {}
    }
    // every resident entry of the observed state must be a stored pair
    for (_, l) in post.lists.iter().enumerate().take(post.kind.resident_lists()) {
        for e in &l.ents {
            match shadow.get(&e.ident) {
                Some(Sh::Stored(v)) if *v == e.val => {}
                other => errs.push((
                    "state_incoherent",
                    format!("resident entry (k{},v{}) but the caller's history says {:?}", e.ident, e.val, other),
                )),
            }
        }
    }
    for (o, d) in errs {
        let d = format!("{} [pre {} ; op {} ; result {} ; post {}]", d, pre.show(), op.show(), val.show(), post.show());
        run.viol("C02", o, step, op, d);
    }
}

/// C15: callback log delta == entries that left the cache in this step
fn check_c15(run: &mut Run, log: &[(u32, u64)], pre: &Alpha, post: &Alpha, _val: &Val, step: i64, op: &Op) {
    let log: Vec<(u32, u64)> = log.to_vec();
    let mut departed: Vec<(u32, u64)> = Vec::new();
    // order in which they leave: LRU end first for purge/resize; single otherwise
    for e in pre.lists[0].ents.iter().rev() {
        let stays = post.lists[0].find(e.ident).is_some();
        if !stays {
            departed.push((e.ident, e.val));
        }
    }
    // a key removed and re-inserted in one step cannot happen; update keeps the ident
    let mut a = log.clone();
    let mut b = departed.clone();
    a.sort_unstable();
    b.sort_unstable();
    run.stats.add("callbacks_seen", log.len() as u64);
    if !departed.is_empty() {
        run.stats.bump(&format!("cb_departure:{}", op.code.name()));
    }
    if a != b {
        // L1: at capacity 0 the bounced pair may or may not be announced
        if pre.pub_cap == 0 && b.is_empty() && a.len() == 1 && a[0] == (op.k, op.v) {
            return;
        }
        let d = format!(
            "callback invocations {:?} but the entries that left the cache are {:?} [pre {} ; op {} ; post {}]",
            log,
            departed,
            pre.show(),
            op.show(),
            post.show()
        );
        run.viol("C15", "callback_log", step, op, d);
    } else if log != departed && !matches!(op.code, Code::Purge | Code::Resize) {
        let d = format!("callback order {:?} differs from departure order {:?}", log, departed);
        run.viol("C15", "callback_order", step, op, d);
    }
}

/// C04: live objects == objects in α of every live subject (harness holds nothing between events)
fn check_c04_equation(run: &mut Run, slots: &[Option<Slot>], step: i64, op: &Op, extra: Option<&Alpha>) {
    let mut want: BTreeSet<u64> = BTreeSet::new();
    let mut n = 0usize;
    for s in slots.iter().flatten() {
        if let Some(a) = &s.alpha {
            for x in a.all_serials() {
                want.insert(x);
                n += 1;
            }
        } else {
            return; // state unknown
        }
    }
    if let Some(a) = extra {
        for x in a.all_serials() {
            want.insert(x);
            n += 1;
        }
    }
    if want.len() != n {
        run.viol("C04", "object_shared", step, op, "one key/value object is held by two entries".into());
    }
    let live = world::live_count() as usize;
    if live != want.len() {
        let ls: BTreeSet<u64> = world::live_serials().into_iter().collect();
        let leaked: Vec<u64> = ls.difference(&want).copied().take(6).collect();
        let dead: Vec<u64> = want.difference(&ls).copied().take(6).collect();
        run.viol(
            "C04",
            "ledger_equation",
            step,
            op,
            format!(
                "{} live key/value objects but the cache retains {}: alive-but-unreachable serials {:?}, retained-but-dropped serials {:?}",
                live,
                want.len(),
                leaked,
                dead
            ),
        );
    }
}

/// C02/C01: probe every ident of the universe with peek / contains / peek_mut
fn probe_all(run: &mut Run, slots: &mut [Option<Slot>], ti: usize, step: i64, op: &Op) {
    let universe = run.t.header.universe;
    let a = match slots[ti].as_ref().and_then(|s| s.alpha.clone()) {
        Some(a) => a,
        None => return,
    };
    if a.kind.n_lists() == 0 {
        return;
    }
    let mut n_contains = 0usize;
    for k in 1..=universe {
        let res = a.resident(k).map(|(_, e)| e.val);
        for (code, owned) in [(Code::Contains, false), (Code::Peek, k % 2 == 0), (Code::PeekMut, false)] {
            let pop = Op::new(code).k(k).owned(owned);
            world::begin_event(run.budget);
            let r = {
                let sl = slots[ti].as_mut().unwrap();
                catch_unwind(AssertUnwindSafe(|| sl.s.apply(&pop)))
            };
            world::end_event();
            match r {
                Err(p) => {
                    let (d, _, _) = panic_desc(p);
                    run.viol("C05", "op_panic", step, &pop, format!("probe panicked at {}", d));
                }
                Ok(v) => {
                    let says = match (&v, code) {
                        (Val::Bool(b), _) => *b,
                        (Val::V(_), _) => true,
                        _ => false,
                    };
                    if code == Code::Contains && says {
                        n_contains += 1;
                    }
                    if says != res.is_some() {
                        run.viol(
                            "C02",
                            "probe_residency",
                            step,
                            op,
                            format!("after this event {}(k{}) says resident={} but the lists say {}: {}", code.name(), k, says, res.is_some(), a.show()),
                        );
                    }
                    if let (Val::V(x), Some(want)) = (&v, res) {
                        if *x != want {
                            run.viol(
                                "C02",
                                "probe_value",
                                step,
                                op,
                                format!("after this event {}(k{}) returns v{} but the entry stores v{}: {}", code.name(), k, x, want, a.show()),
                            );
                        }
                    }
                }
            }
        }
    }
    run.harvest(step, op);
    if n_contains != a.pub_len {
        run.viol(
            "C01",
            "len_vs_contains",
            step,
            op,
            format!("len() is {} but contains() is true for {} distinct keys: {}", a.pub_len, n_contains, a.show()),
        );
    }
    // probing is read-only
    let after = {
        let s = slots[ti].as_ref().unwrap();
        run.snapshot(s.s.as_ref(), step, op)
    };
    if let Some(after) = &after {
        if !a.phys_eq(after) {
            let d = format!("peek/contains/peek_mut probes changed the state from {} to {}", a.show(), after.show());
            run.viol("C13", "readonly_changes_state", step, op, d);
        }
    }
    run.stats.bump("probe_rounds");
}

/// "this rare condition was hit" counters
fn probes(run: &mut Run, kind: Kind, pre: &Alpha, post: &Alpha, op: &Op, val: &Val) {
    let full = pre.resident_count() >= pre.pub_cap;
    match (op.code, val) {
        (Code::Put, Val::Put(p)) => {
            if full {
                run.stats.bump("put_into_full");
            }
            match p {
                PutRes::Put => run.stats.bump("res_put"),
                PutRes::Update(_) => run.stats.bump("res_update"),
                PutRes::Evicted(..) => run.stats.bump("res_evicted"),
                PutRes::EvictedAndUpdate(..) => run.stats.bump("res_evicted_and_update"),
            }
            if pre.pub_cap == 1 {
                run.stats.bump("put_at_cap1");
            }
            if pre.pub_cap == 0 {
                run.stats.bump("put_at_cap0");
            }
            let nres = kind.resident_lists();
            if pre.lists.iter().skip(nres).any(|l| l.find(op.k).is_some()) {
                run.stats.bump("ghost_hit");
                if full {
                    run.stats.bump("ghost_hit_full");
                }
            }
        }
        (Code::Resize, Val::Num(n)) => {
            if *n == 0 {
                run.stats.bump("resize_discards_0");
            } else if post.lists[0].ents.is_empty() {
                run.stats.bump("resize_discards_all");
            } else {
                run.stats.bump("resize_discards_some");
            }
            if op.n == 0 {
                run.stats.bump("resize_to_0");
            }
        }
        (Code::Iter, _) => {
            run.stats.bump(&format!("iter_fam_{}", op.fam));
            let l = pre.lists.get(op.list as usize).map(|l| l.ents.len()).unwrap_or(0);
            if l == 0 {
                run.stats.bump("iter_on_empty");
            }
            if l == 1 {
                run.stats.bump("iter_on_single");
            }
            if op.xs.len() > l {
                run.stats.bump("iter_past_exhaustion");
            }
        }
        _ => {}
    }
}
