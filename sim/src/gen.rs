//! Seeded generation of configurations, environments, schedules and histories (swarm style).
//! Everything is a pure function of (VERIF_SEED, property id, run index, tier).
use crate::alloc::AllocSpec;
use crate::alpha::Kind;
use crate::hashers::{HKind, HasherSpec, KeyHasherSpec};
use crate::ops::{Code, Event, Op};
use crate::rng::{run_seed, Rng};
use crate::subj::Header;
use crate::trace::{EnvB, Trace};

#[derive(Clone, Copy, Debug, PartialEq, Eq)]
pub enum Tier {
    Quick,
    Thorough,
}

pub fn flavour() -> &'static str {
    if cfg!(feature = "flavor-nostd") {
        "no_std"
    } else if cfg!(feature = "bigval") {
        "std_bigval"
    } else {
        "std"
    }
}

struct Plan {
    kinds: &'static [(Kind, u32)],
    observers: bool,
    forks: bool,
    iters: u32, // weight multiplier for iterator events (0 = default low)
    cb: u8,     // 0 never, 1 sometimes, 2 always
    probe_all: bool,
    env_pair: bool,
    flip_owned_pair: bool,
    twin_observer_pair: bool,
    random_state: bool,
    bad_ctor_args: bool,
    max_len: u64,
}

const CACHES: &[(Kind, u32)] = &[(Kind::Lru, 3), (Kind::Slru, 3), (Kind::TwoQ, 3), (Kind::Arc, 3), (Kind::Wtlfu, 3)];
const ALL7: &[(Kind, u32)] = &[
    (Kind::Lru, 3),
    (Kind::Slru, 3),
    (Kind::TwoQ, 4),
    (Kind::Arc, 4),
    (Kind::Wtlfu, 4),
    (Kind::Tlfu, 4),
    (Kind::Sampled, 2),
];

fn plan(prop: &str) -> Plan {
    let base = Plan {
        kinds: CACHES,
        observers: false,
        forks: false,
        iters: 0,
        cb: 1,
        probe_all: false,
        env_pair: false,
        flip_owned_pair: false,
        twin_observer_pair: false,
        random_state: true,
        bad_ctor_args: false,
        max_len: 60,
    };
    match prop {
        "C01" => Plan { probe_all: true, forks: true, ..base },
        "C02" => Plan { probe_all: true, flip_owned_pair: true, iters: 2, ..base },
        "C03" | "C04" => Plan { forks: true, iters: 1, ..base },
        "C05" => Plan { kinds: ALL7, bad_ctor_args: true, forks: true, iters: 1, ..base },
        "C06" => Plan { kinds: &[(Kind::Lru, 1)], forks: true, ..base },
        "C07" => Plan { kinds: &[(Kind::Slru, 1)], forks: true, ..base },
        "C08" => Plan { kinds: &[(Kind::TwoQ, 1)], ..base },
        "C09" => Plan { kinds: &[(Kind::Arc, 1)], ..base },
        "C10" => Plan { kinds: &[(Kind::Wtlfu, 1)], forks: true, ..base },
        "C11" => Plan { kinds: &[(Kind::Tlfu, 1)], forks: true, ..base },
        "C12" => base,
        "C13" => Plan { observers: true, twin_observer_pair: true, iters: 1, ..base },
        "C14" => Plan { kinds: &[(Kind::Lru, 2), (Kind::TwoQ, 2), (Kind::Arc, 2)], iters: 12, ..base },
        "C15" => Plan { kinds: &[(Kind::Lru, 1)], cb: 2, forks: true, ..base },
        "C16" => Plan {
            kinds: &[(Kind::Lru, 4), (Kind::Slru, 3), (Kind::Wtlfu, 3), (Kind::Tlfu, 2)],
            forks: true,
            ..base
        },
        "C17" => Plan { env_pair: true, forks: true, random_state: false, iters: 1, ..base },
        "C18" => Plan { forks: true, random_state: false, max_len: 30, iters: 1, ..base },
        "C20" => Plan { kinds: &[(Kind::Sampled, 1)], ..base },
        _ => base,
    }
}

fn gen_hasher(r: &mut Rng) -> HasherSpec {
    // Sip twice as likely; collide-all and collide-burst are first-class
    let kind = match r.below(10) {
        0..=2 => HKind::Sip,
        3 => HKind::Fnv,
        4..=5 => HKind::Identity,
        6..=7 => HKind::Const0,
        _ => HKind::Masked,
    };
    HasherSpec {
        kind,
        k0: r.next_u64(),
        k1: r.next_u64(),
    }
}

fn small_size(r: &mut Rng, tier: Tier) -> usize {
    // weighted to the small end
    let c = r.below(100);
    match tier {
        Tier::Quick => match c {
            0..=24 => 1,
            25..=49 => 2,
            50..=69 => 3,
            70..=84 => 4,
            _ => r.range(5, 8) as usize,
        },
        Tier::Thorough => match c {
            0..=17 => 1,
            18..=35 => 2,
            36..=50 => 3,
            51..=62 => 4,
            63..=80 => r.range(5, 8) as usize,
            81..=93 => r.range(9, 16) as usize,
            94..=96 => 64,
            _ => 128,
        },
    }
}

fn ratio(r: &mut Rng) -> f64 {
    match r.below(8) {
        0 => 0.0,
        1 => 0.25,
        2 => 0.5,
        3 => 0.75,
        4 => 1.0,
        5 => 0.34,
        _ => (r.below(1001) as f64) / 1000.0,
    }
}

fn bad_ratio(r: &mut Rng) -> f64 {
    *r.pick(&[-1.0, -0.0001, 1.0001, 1.5, f64::NAN, f64::INFINITY, f64::NEG_INFINITY])
}

pub fn gen_header(kind: Kind, r: &mut Rng, p_random_state: bool, cb: u8, bad_args: bool, tier: Tier) -> Header {
    let random_state = p_random_state && r.chance(1, 8);
    let key_type = if r.chance(1, 4) && !random_state { "SKey" } else { "TK" }.to_string();
    let mut h = Header {
        kind,
        key_type,
        ctor: 0,
        sizes: vec![],
        ratios: vec![],
        samples: 0,
        max_cost: 0,
        hashers: vec![],
        key_hasher: KeyHasherSpec::from_u(r.below(5), r.next_u64()),
        random_state,
        with_cb: false,
        clock: None,
        universe: 0,
    };
    let nh = match kind {
        Kind::Lru | Kind::Sampled => 1,
        Kind::Slru => 2,
        Kind::TwoQ | Kind::Wtlfu => 3,
        Kind::Arc => 4,
        Kind::Tlfu => 0,
    };
    for _ in 0..nh {
        h.hashers.push(gen_hasher(r));
    }
    let zero_size = bad_args && r.chance(1, 12);
    match kind {
        Kind::Lru => {
            h.sizes = vec![small_size(r, tier)];
            h.with_cb = match cb {
                0 => false,
                2 => true,
                _ => r.chance(1, 3),
            };
            if zero_size {
                h.sizes[0] = 0;
            }
            if !random_state && h.with_cb && r.chance(1, 6) {
                // a callback type without state (zero-sized); never cloned (see ZstCallback)
                h.ctor = 9;
            }
            if random_state && !h.with_cb && r.chance(1, 3) {
                // conversion constructors (FromIterator / From<collection>): sizes[0] = number of pairs
                h.ctor = r.range(1, 8) as u8;
                h.sizes[0] = r.below(6) as usize;
                if h.sizes[0] >= 2 && r.chance(1, 3) {
                    // the last sizes[1] pairs repeat the keys of the first ones
                    let d = r.range(1, h.sizes[0] as u64 - 1) as usize;
                    h.sizes.push(d);
                }
            }
        }
        Kind::Slru => {
            let cap = |r: &mut Rng| match tier {
                Tier::Quick => r.range(1, 4) as usize,
                Tier::Thorough => {
                    if r.chance(1, 5) {
                        r.range(5, 8) as usize
                    } else {
                        r.range(1, 4) as usize
                    }
                }
            };
            h.sizes = vec![cap(r), cap(r)];
            h.ctor = if random_state { r.below(4) as u8 } else { r.below(3) as u8 };
            if zero_size {
                let i = r.below(2) as usize;
                h.sizes[i] = 0;
            }
        }
        Kind::TwoQ => {
            h.sizes = vec![small_size(r, tier)];
            let mut rr = ratio(r);
            let mut gr = ratio(r);
            // ratios of the form m/size: size x ratio lands on (or a rounding error away from) an
            // integer, where an imprecise floor shows
            if h.sizes[0] >= 2 && r.chance(1, 6) {
                let sz = h.sizes[0] as u64;
                if r.chance(1, 2) {
                    rr = r.range(1, sz) as f64 / sz as f64;
                } else {
                    gr = r.range(1, sz) as f64 / sz as f64;
                }
            }
            if !bad_args && !zero_size && r.chance(1, 25) {
                // decimal ratios on round sizes: size x ratio is mathematically an integer but not
                // in floating point (100 x 0.57 = 56.99999999999999), the place where a floor
                // computed in another precision or order shows
                h.sizes[0] = *r.pick(&[50usize, 100, 100, 200]);
                rr = r.below(101) as f64 / 100.0;
                gr = r.range(1, 100) as f64 / 100.0;
            }
            if random_state {
                h.ctor = r.below(5) as u8;
                match h.ctor {
                    0 => {
                        rr = 0.25;
                        gr = 0.5;
                    }
                    1 => gr = 0.5,
                    2 => rr = 0.25,
                    _ => {}
                }
            } else {
                h.ctor = r.below(2) as u8;
            }
            if !bad_args {
                // keep construction successful most of the time: ghost bound >= 1
                let mut guard = 0;
                while ((h.sizes[0] as f64) * gr).floor() < 1.0 && guard < 8 {
                    if random_state && matches!(h.ctor, 0 | 1) {
                        h.sizes[0] = h.sizes[0].max(2);
                        break;
                    }
                    gr = *r.pick(&[0.5, 0.75, 1.0]);
                    guard += 1;
                }
            } else if r.chance(1, 6) {
                if r.chance(1, 2) {
                    rr = bad_ratio(r);
                } else {
                    gr = bad_ratio(r);
                }
                if random_state {
                    h.ctor = 3 + r.below(2) as u8;
                }
            }
            h.ratios = vec![rr, gr];
            if zero_size {
                h.sizes[0] = 0;
            }
        }
        Kind::Arc => {
            h.sizes = vec![small_size(r, tier)];
            h.ctor = r.below(2) as u8;
            if zero_size {
                h.sizes[0] = 0;
            }
        }
        Kind::Wtlfu => {
            let c = |r: &mut Rng| r.range(1, 3) as usize;
            h.sizes = vec![c(r), c(r), c(r)];
            if tier == Tier::Thorough && r.chance(1, 6) {
                h.sizes = vec![r.range(1, 5) as usize, r.range(1, 6) as usize, r.range(1, 6) as usize];
            }
            h.samples = r.range(1, 40) as usize;
            let fp = *r.pick(&[1e-9, 0.01, 0.01, 0.5, 0.99]);
            h.ratios = vec![fp];
            if random_state {
                h.ctor = 0;
                h.ratios = vec![0.01];
                if r.chance(1, if tier == Tier::Thorough { 10 } else { 30 }) {
                    // WTinyLFUCache::new(size, samples): derived segment sizes
                    let size = r.range(100, 130) as usize;
                    h.ctor = 1;
                    let wsz = ((size as f64) * 0.01) as usize;
                    let hsz = ((size as f64) * 0.80) as usize;
                    let csz = ((size as f64) * (1f64 - 0.80)) as usize;
                    h.sizes = vec![wsz, csz, hsz, size];
                }
            } else {
                h.ctor = r.below(3) as u8;
            }
            if bad_args && r.chance(1, 8) {
                match r.below(3) {
                    0 => h.samples = 0,
                    1 if !random_state => h.ratios = vec![*r.pick(&[f64::NAN, -1.0, 0.0, 1.0, 2.0])],
                    _ => {
                        if h.sizes.len() > 3 {
                            // `new(size, samples)`: a small size derives a zero window segment
                            let size = *r.pick(&[0usize, 1, 50, 99]);
                            let wsz = ((size as f64) * 0.01) as usize;
                            let hsz = ((size as f64) * 0.80) as usize;
                            let csz = ((size as f64) * (1f64 - 0.80)) as usize;
                            h.sizes = vec![wsz, csz, hsz, size];
                        } else {
                            let i = r.below(3) as usize;
                            h.sizes[i] = 0;
                        }
                    }
                }
            }
            h.clock = Some(gen_clock(r));
        }
        Kind::Tlfu => {
            h.sizes = vec![match r.below(10) {
                0..=2 => 1,
                3..=4 => 2,
                5 => 3,
                6 => 4,
                7 => r.range(5, 16) as usize,
                _ => r.range(17, 64) as usize,
            }];
            if r.chance(1, 40) {
                // widths beyond 2^16: the power-of-two rounding of the sketch has more to do
                h.sizes = vec![*r.pick(&[65_537usize, 131_073, 196_609, (1 << 20) + 1, 70_001, 65_536])];
            }
            h.samples = r.range(1, 40) as usize;
            h.ratios = vec![*r.pick(&[1e-9, 0.01, 0.01, 0.5, 0.99])];
            if bad_args && r.chance(1, 6) {
                match r.below(3) {
                    0 => h.samples = 0,
                    1 => h.ratios = vec![*r.pick(&[f64::NAN, -1.0, 0.0, 1.0, 2.0, f64::INFINITY])],
                    _ => h.sizes[0] = 0,
                }
            }
            h.clock = Some(gen_clock(r));
        }
        Kind::Sampled => {
            h.max_cost = *r.pick(&[0i64, 1, 10, 100, 1000, -5, 1 << 40]);
            h.samples = *r.pick(&[0usize, 1, 2, 3, 5, 5, 8, 40]);
            if r.chance(1, 12) {
                h.samples = *r.pick(&[1023usize, 1024, 1025, 1200, 5000, usize::MAX]);
            }
            h.ctor = if random_state { r.below(2) as u8 } else { r.below(5) as u8 };
            if (random_state && h.ctor == 0) || (!random_state && matches!(h.ctor, 1 | 3)) {
                h.samples = 5; // DEFAULT_SAMPLES on these paths
            }
        }
    }
    let total: usize = match kind {
        Kind::Wtlfu => h.sizes.iter().take(3).sum(),
        Kind::Tlfu | Kind::Sampled => 5,
        _ => h.sizes.iter().sum(),
    };
    h.universe = ((total + 3).clamp(4, if tier == Tier::Quick && total < 64 { 11 } else { 140 })) as u32;
    if matches!(kind, Kind::Tlfu | Kind::Sampled) {
        h.universe = r.range(1, 8) as u32;
    }
    h
}

fn gen_clock(r: &mut Rng) -> u64 {
    match r.below(6) {
        0 => 0,
        1 => u64::MAX,
        2 => 1_700_000_000_000_000_000,
        3 => 42,
        _ => r.next_u64(),
    }
}


/// C05 part (a): the constructor grid, enumerated (not sampled) as the first run indices of the
/// C05 campaign: every public constructor / builder path x sizes x ratios x samples x fp ratios,
/// including every value the statement documents as invalid. Each point then receives a short
/// seeded history (if it constructs).
pub fn c05_grid() -> &'static Vec<Header> {
    static GRID: std::sync::OnceLock<Vec<Header>> = std::sync::OnceLock::new();
    GRID.get_or_init(|| {
        let base = |kind: Kind| Header {
            kind,
            key_type: "TK".into(),
            ctor: 0,
            sizes: vec![],
            ratios: vec![],
            samples: 0,
            max_cost: 0,
            hashers: vec![HasherSpec::IDENTITY; 4],
            key_hasher: KeyHasherSpec::from_u(0, 0),
            random_state: false,
            with_cb: false,
            clock: Some(42),
            universe: 6,
        };
        let sizes = [0usize, 1, 2, 3, 4, 7, 8];
        let ratios = [-1.0, 0.0, 0.25, 0.5, 1.0, 1.5, f64::NAN, f64::INFINITY, f64::NEG_INFINITY];
        let fps = [f64::NAN, -1.0, 0.0, 1e-9, 0.01, 0.5, 1.0, 2.0];
        let samples = [0usize, 1, 5];
        let mut g: Vec<Header> = Vec::new();
        // RawLRU
        for rs in [false, true] {
            for cb in [false, true] {
                for c in sizes {
                    let mut h = base(Kind::Lru);
                    h.random_state = rs;
                    h.with_cb = cb;
                    h.sizes = vec![c];
                    g.push(h);
                }
            }
        }
        for ctor in 1..=8u8 {
            for n in [0usize, 1, 2, 3, 5] {
                let mut h = base(Kind::Lru);
                h.random_state = true;
                h.ctor = ctor;
                h.sizes = vec![n];
                g.push(h);
            }
        }
        // SegmentedCache
        for (rs, ctors) in [(false, 3u8), (true, 4u8)] {
            for ctor in 0..ctors {
                for cp in 0..4usize {
                    for cq in 0..4usize {
                        let mut h = base(Kind::Slru);
                        h.random_state = rs;
                        h.ctor = ctor;
                        h.sizes = vec![cp, cq];
                        g.push(h);
                    }
                }
            }
        }
        // TwoQueueCache
        for (rs, ctor) in [(false, 0u8), (false, 1), (true, 3), (true, 4)] {
            for c in sizes {
                for rr in ratios {
                    for gr in ratios {
                        let mut h = base(Kind::TwoQ);
                        h.random_state = rs;
                        h.ctor = ctor;
                        h.sizes = vec![c];
                        h.ratios = vec![rr, gr];
                        g.push(h);
                    }
                }
            }
        }
        for c in sizes {
            let mut h = base(Kind::TwoQ);
            h.random_state = true;
            h.ctor = 0;
            h.sizes = vec![c];
            h.ratios = vec![0.25, 0.5];
            g.push(h);
            for r in ratios {
                let mut h1 = base(Kind::TwoQ);
                h1.random_state = true;
                h1.ctor = 1;
                h1.sizes = vec![c];
                h1.ratios = vec![r, 0.5];
                g.push(h1);
                let mut h2 = base(Kind::TwoQ);
                h2.random_state = true;
                h2.ctor = 2;
                h2.sizes = vec![c];
                h2.ratios = vec![0.25, r];
                g.push(h2);
            }
        }
        // AdaptiveCache
        for rs in [false, true] {
            for ctor in 0..2u8 {
                for c in sizes {
                    let mut h = base(Kind::Arc);
                    h.random_state = rs;
                    h.ctor = ctor;
                    h.sizes = vec![c];
                    g.push(h);
                }
            }
        }
        // WTinyLFUCache
        for ctor in 0..3u8 {
            for cw in 0..3usize {
                for cp in 0..3usize {
                    for cq in 0..3usize {
                        for s in samples {
                            for fp in fps {
                                let mut h = base(Kind::Wtlfu);
                                h.ctor = ctor;
                                h.sizes = vec![cw, cp, cq];
                                h.samples = s;
                                h.ratios = vec![fp];
                                g.push(h);
                            }
                        }
                    }
                }
            }
        }
        for cw in 0..3usize {
            for cp in 0..3usize {
                for cq in 0..3usize {
                    for s in samples {
                        let mut h = base(Kind::Wtlfu);
                        h.random_state = true;
                        h.sizes = vec![cw, cp, cq];
                        h.samples = s;
                        h.ratios = vec![0.01];
                        g.push(h);
                    }
                }
            }
        }
        for size in [0usize, 1, 50, 99, 100, 128] {
            for s in samples {
                let mut h = base(Kind::Wtlfu);
                h.random_state = true;
                h.ctor = 1;
                let wsz = ((size as f64) * 0.01) as usize;
                let hsz = ((size as f64) * 0.80) as usize;
                let csz = ((size as f64) * (1f64 - 0.80)) as usize;
                h.sizes = vec![wsz, csz, hsz, size];
                h.samples = s;
                h.ratios = vec![0.01];
                g.push(h);
            }
        }
        // TinyLFU
        for rs in [false, true] {
            for c in sizes {
                for s in samples {
                    for fp in fps {
                        let mut h = base(Kind::Tlfu);
                        h.random_state = rs;
                        h.sizes = vec![c];
                        h.samples = s;
                        h.ratios = vec![fp];
                        g.push(h);
                    }
                }
            }
        }
        // SampledLFU
        for (rs, ctors) in [(false, 5u8), (true, 2u8)] {
            for ctor in 0..ctors {
                for mc in [0i64, 1, -5, 100] {
                    for s in samples {
                        let mut h = base(Kind::Sampled);
                        h.random_state = rs;
                        h.ctor = ctor;
                        h.max_cost = mc;
                        h.samples = if (rs && ctor == 0) || (!rs && matches!(ctor, 1 | 3)) { 5 } else { s };
                        g.push(h);
                    }
                }
            }
        }
        for h in g.iter_mut() {
            let total: usize = h.sizes.iter().take(3).sum();
            h.universe = ((total + 3).clamp(4, 11)) as u32;
            if matches!(h.kind, Kind::Tlfu | Kind::Sampled) {
                h.universe = 4;
            }
            if h.kind == Kind::Lru && h.random_state && h.ctor >= 1 {
                h.universe = h.sizes[0] as u32 + 3;
            }
        }
        g
    })
}

struct KeyGen {
    universe: u32,
    mode: u8,
    cursor: u32,
    span: u32,
    /// mode 5 (scale shapes): highest key put so far and the number of resident slots
    hi: u32,
    total: u32,
}
impl KeyGen {
    fn next(&mut self, r: &mut Rng) -> u32 {
        match self.mode {
            1 => {
                // scan
                self.cursor = self.cursor % self.universe + 1;
                self.cursor
            }
            2 => {
                // loop slightly larger than the cache
                self.cursor = self.cursor % self.span.max(1) + 1;
                self.cursor
            }
            5 => {
                // the ends of a long scan: oldest keys, newest keys (and fresh ones just beyond), the
                // region where the resident set ends, anything
                let hi = self.hi.max(1);
                let around = |r: &mut Rng, c: u32| -> u32 { (c + r.below(9) as u32).saturating_sub(4).clamp(1, self.universe) };
                match r.below(8) {
                    0 | 1 => r.below(6.min(self.universe as u64)) as u32 + 1,
                    2..=4 => around(r, hi),
                    5 | 6 => around(r, hi.saturating_sub(self.total).max(1)),
                    _ => r.below(self.universe as u64) as u32 + 1,
                }
            }
            3 => {
                // skewed to small idents
                let a = r.below(self.universe as u64) as u32;
                let b = r.below(self.universe as u64) as u32;
                a.min(b) + 1
            }
            _ => r.below(self.universe as u64) as u32 + 1,
        }
    }
}

fn weights(kind: Kind, mix: u8, iters: u32, controlled: bool) -> Vec<(Code, u32)> {
    use Code::*;
    let (put, get, rem) = match mix {
        1 => (18, 30, 5),  // get-heavy
        2 => (22, 10, 22), // remove-heavy
        _ => (34, 14, 7),  // put-heavy
    };
    let mut w: Vec<(Code, u32)> = vec![
        (Put, put),
        (Get, get),
        (GetMut, get / 2),
        (Peek, 5),
        (PeekMut, 4),
        (Contains, 4),
        (Remove, rem),
        (Purge, 1),
        (Len, 1),
        (Cap, 1),
        (IsEmpty, 1),
    ];
    let it = 2 + iters * 6;
    match kind {
        Kind::Lru => w.extend_from_slice(&[
            (Resize, 3),
            (GetLru, 2),
            (GetLruMut, 1),
            (GetMru, 1),
            (GetMruMut, 1),
            (PeekLru, 1),
            (PeekLruMut, 1),
            (PeekMru, 1),
            (PeekMruMut, 1),
            (PeekOrPut, 3),
            (PeekMutOrPut, 2),
            (ContainsOrPut, 3),
            (RemoveLru, 3),
            (Iter, it),
            (Debug, 1),
        ]),
        Kind::Slru => w.extend_from_slice(&[
            (PutProtected, 5),
            (SegPeekLru, 2),
            (SegPeekLruMut, 1),
            (SegPeekMru, 2),
            (SegPeekMruMut, 1),
            (SegRemoveLru, 3),
            (ListLen, 1),
            (ListCap, 1),
        ]),
        Kind::TwoQ => w.extend_from_slice(&[(ListLen, 1), (Iter, it), (Debug, 1)]),
        Kind::Arc => w.extend_from_slice(&[(Partition, 1), (ListLen, 1), (Iter, it)]),
        Kind::Wtlfu => w.extend_from_slice(&[(ListLen, 1), (ListCap, 1)]),
        _ => {}
    }
    let _ = controlled;
    w.push((Rehash, 2));
    w
}

fn gen_cache_op(kind: Kind, h: &Header, r: &mut Rng, kg: &mut KeyGen, table: &[(Code, u32)], next_val: &mut u64) -> Op {
    use Code::*;
    let ws: Vec<u32> = table.iter().map(|x| x.1).collect();
    let code = table[r.weighted(&ws)].0;
    let mut op = Op::new(code);
    let mut fresh = |n: u64| {
        let v = *next_val;
        *next_val += n;
        v
    };
    let nlists = kind.n_lists().max(1) as u64;
    match code {
        Put | PutProtected | PeekOrPut | ContainsOrPut => {
            op.k = kg.next(r);
            op.v = fresh(1);
        }
        PeekMutOrPut => {
            op.k = kg.next(r);
            op.v = fresh(1);
            if r.chance(2, 3) {
                op.w = fresh(1);
            }
        }
        Get | Peek | Contains | Remove => {
            op.k = kg.next(r);
            op.owned = r.chance(1, 3);
        }
        GetMut | PeekMut => {
            op.k = kg.next(r);
            op.owned = r.chance(1, 3);
            if r.chance(2, 3) {
                op.w = fresh(1);
            }
        }
        GetLruMut | GetMruMut | PeekLruMut | PeekMruMut => {
            if r.chance(2, 3) {
                op.w = fresh(1);
            }
        }
        SegPeekLruMut | SegPeekMruMut => {
            op.list = r.below(2) as u8;
            if r.chance(2, 3) {
                op.w = fresh(1);
            }
        }
        SegPeekLru | SegPeekMru | SegRemoveLru => op.list = r.below(2) as u8,
        ListLen => {
            op.list = match kind {
                Kind::Wtlfu | Kind::Slru => r.below(2) as u8,
                _ => r.below(nlists) as u8,
            }
        }
        ListCap => op.list = r.below(2) as u8,
        Rehash => op.list = r.below(nlists) as u8,
        Resize => {
            let cap = h.sizes[0] as u64;
            op.n = match r.below(11) {
                10 if r.chance(1, 3) => -(r.range(1, 6) as i64),
                0 => 0,
                1 => 1,
                2 => cap as i64,
                3 => cap as i64 + 1,
                4 => (cap as i64 - 1).max(0),
                5 => r.below(2 * cap + 2) as i64,
                _ => r.range(1, cap + 2) as i64,
            };
        }
        Iter => {
            op.list = r.below(nlists) as u8;
            op.fam = if kind == Kind::Lru { r.below(12) as u8 } else { r.below(10) as u8 };
            let len = r.below(h.universe.min(9) as u64 + 3);
            // exhaustive-ish for short words: the word itself is seeded
            op.xs = (0..len).map(|_| r.below(2)).collect();
            op.n = if r.chance(1, 2) && len > 0 { r.below(len) as i64 } else { -1 };
            let mutable = matches!(op.fam, 2 | 3 | 8 | 9 | 11);
            if mutable {
                op.n = -1;
                if r.chance(2, 3) {
                    op.w = fresh(64);
                }
            }
        }
        _ => {}
    }
    op
}

fn gen_tlfu_op(h: &Header, r: &mut Rng, hashes: &[u64]) -> Op {
    use Code::*;
    let table: [(Code, u32); 11] = [
        (TInc, 30),
        (TIncKey, 14),
        (TIncKeys, 3),
        (TIncHashes, 3),
        (TTryReset, 6),
        (TClear, 2),
        (TEst, 5),
        (TEstKey, 3),
        (TContains, 3),
        (TContainsKey, 2),
        (TCmp, 10),
    ];
    let ws: Vec<u32> = table.iter().map(|x| x.1).collect();
    let code = table[r.weighted(&ws)].0;
    let mut op = Op::new(code);
    let key = |r: &mut Rng| r.below(h.universe as u64) as u32 + 1;
    match code {
        TInc | TEst | TContains => {
            op.v = *r.pick(hashes);
            if r.chance(1, 6) {
                // boundary hash: resolved at execution time to the hash that indexes the last
                // counter of sketch row fam-1 (needs the row seeds, which the clock decides)
                op.fam = r.range(1, 4) as u8;
            }
        }
        TIncKey | TEstKey | TContainsKey => op.k = key(r),
        TIncKeys => op.xs = (0..r.range(0, 4)).map(|_| key(r) as u64).collect(),
        TIncHashes => op.xs = (0..r.range(0, 4)).map(|_| *r.pick(hashes)).collect(),
        TCmp => {
            op.k = key(r);
            op.k2 = key(r);
            op.fam = r.below(5) as u8;
        }
        _ => {}
    }
    op
}

fn gen_sampled_op(h: &Header, r: &mut Rng, hashes: &[u64], big: bool) -> Op {
    use Code::*;
    let table: [(Code, u32); 10] = [
        (SInc, 14),
        (SIncH, 22),
        (SUpd, 6),
        (SUpdH, 8),
        (SRem, 6),
        (SRemH, 10),
        (SClear, 2),
        (SMax, 3),
        (SFill, 8),
        (SRoom, 8),
    ];
    let ws: Vec<u32> = table.iter().map(|x| x.1).collect();
    let code = table[r.weighted(&ws)].0;
    let mut op = Op::new(code);
    let key = |r: &mut Rng| r.below(h.universe as u64) as u32 + 1;
    let cost = |r: &mut Rng| -> i64 {
        match r.below(8) {
            0 => 0,
            1 => -(r.below(50) as i64),
            2 => 1 << 40,
            3 => -(1 << 40),
            _ => r.below(100) as i64,
        }
    };
    // costs near the ends of the i64 range: at most two tracked entries (one key, one raw hash)
    // of magnitude <= 4e18 each, so that the true sums stay representable
    let big_cost = |r: &mut Rng| -> i64 {
        let m = *r.pick(&[4_000_000_000_000_000_000i64, 3_999_999_999_999_999_999, 2_000_000_000_000_000_000, 1_000_000_000_000_000_000, 3_500_000_000_000_000_000, 7]);
        if r.chance(1, 3) {
            -m
        } else {
            m
        }
    };
    match code {
        SInc | SUpd => {
            op.k = key(r);
            op.n = if big { big_cost(r) } else { cost(r) };
        }
        SIncH | SUpdH => {
            op.v = *r.pick(hashes);
            op.n = if big { big_cost(r) } else { cost(r) };
        }
        SRem => op.k = key(r),
        SRemH => op.v = *r.pick(hashes),
        SMax | SRoom => op.n = cost(r),
        SFill => {
            let n = if h.samples > 1000 {
                *r.pick(&[0u64, 3, 1020, 1023, 1024, 1025, 1030, 1100])
            } else {
                r.below(h.samples as u64 + 3)
            };
            for _ in 0..n {
                op.xs.push(r.next_u64() | (1 << 62));
                op.xs.push(cost(r) as u64);
            }
        }
        _ => {}
    }
    op
}

fn raw_hash_universe(r: &mut Rng) -> Vec<u64> {
    let n = r.range(1, 8) as usize;
    let specials = [
        0u64,
        u64::MAX,
        1,
        0x0000_0001_0000_0001,
        0xFFFF_FFFF_0000_0000,
        0x8000_0000_0000_0000,
        0x0ddc_0ffe_ebad_f00d,
        0x0000_0000_FFFF_FFFF,
        1 << 32,
        2 << 32,
    ];
    let mut v = Vec::new();
    for _ in 0..n {
        if r.chance(1, 2) {
            v.push(*r.pick(&specials));
        } else {
            v.push(r.next_u64());
        }
    }
    v
}

const READ_ONLY_CACHE: &[Code] = &[
    Code::Peek,
    Code::PeekMut,
    Code::Contains,
    Code::Len,
    Code::Cap,
    Code::IsEmpty,
];

fn gen_observer_op(kind: Kind, h: &Header, r: &mut Rng) -> Op {
    use Code::*;
    let mut pool: Vec<Code> = READ_ONLY_CACHE.to_vec();
    match kind {
        Kind::Lru => pool.extend_from_slice(&[GetMru, GetMruMut, PeekLru, PeekLruMut, PeekMru, PeekMruMut, Iter, Iter, Debug, ListLen]),
        Kind::Slru => pool.extend_from_slice(&[SegPeekLru, SegPeekLruMut, SegPeekMru, SegPeekMruMut, ListLen, ListCap]),
        Kind::TwoQ => pool.extend_from_slice(&[ListLen, Iter, Iter, Debug]),
        Kind::Arc => pool.extend_from_slice(&[ListLen, Iter, Iter, Partition]),
        Kind::Wtlfu => pool.extend_from_slice(&[ListLen, ListCap]),
        _ => {}
    }
    let code = *r.pick(&pool);
    let mut op = Op::new(code);
    let nlists = kind.n_lists().max(1) as u64;
    match code {
        Peek | PeekMut | Contains => {
            op.k = r.below(h.universe as u64) as u32 + 1;
            op.owned = r.chance(1, 3);
        }
        SegPeekLru | SegPeekLruMut | SegPeekMru | SegPeekMruMut | ListCap => op.list = r.below(2) as u8,
        ListLen => {
            op.list = match kind {
                Kind::Wtlfu | Kind::Slru => r.below(2) as u8,
                _ => r.below(nlists) as u8,
            }
        }
        Iter => {
            op.list = r.below(nlists) as u8;
            op.fam = if kind == Kind::Lru { r.below(12) as u8 } else { r.below(10) as u8 };
            let len = r.below(h.universe.min(9) as u64 + 3);
            op.xs = (0..len).map(|_| r.below(2)).collect();
            op.n = -1;
        }
        _ => {}
    }
    op
}

pub fn gen(prop: &str, verif_seed: u64, run_index: u64, tier: Tier) -> Trace {
    let seed = run_seed(verif_seed, prop, run_index);
    let pl = plan(prop);
    let mut rc = Rng::stream(seed, "cfg");
    let mut re = Rng::stream(seed, "env");
    let mut ro = Rng::stream(seed, "ops");
    let mut rs = Rng::stream(seed, "sched");
    let ws: Vec<u32> = pl.kinds.iter().map(|k| k.1).collect();
    let kind = pl.kinds[rc.weighted(&ws)].0;
    // differential second executions compare two instances: every hasher must be owned
    let differential = pl.env_pair || pl.flip_owned_pair || pl.twin_observer_pair;
    let mut h = gen_header(kind, &mut rc, pl.random_state && !differential, pl.cb, pl.bad_ctor_args, tier);
    let mut grid_point = false;
    if prop == "C05" {
        let g = c05_grid();
        if (run_index as usize) < g.len() {
            h = g[run_index as usize].clone();
            grid_point = true;
        }
    }
    // rare "stress shapes": capacities and sample sizes around integer boundaries, filled by a long
    // scan so that the large lists are really reached (most runs stay tiny, see 3.8)
    let mut stress = false;
    if !grid_point && prop != "C18" && rc.chance(1, 120) {
        match h.kind {
            Kind::Lru if !(h.random_state && h.ctor >= 1) => {
                h.sizes[0] = *rc.pick(&[16usize, 32, 64, 255, 256, 257]);
                stress = true;
            }
            Kind::TwoQ | Kind::Arc => {
                h.sizes[0] = *rc.pick(&[16usize, 32, 64, 100]);
                if h.kind == Kind::TwoQ && h.ratios.len() == 2 && !(h.random_state && h.ctor < 3) {
                    h.ratios = vec![*rc.pick(&[0.1, 0.25, 0.3, 0.5]), *rc.pick(&[0.3, 0.5, 1.0])];
                }
                stress = true;
            }
            Kind::Slru => {
                h.sizes = vec![*rc.pick(&[8usize, 16, 33]), *rc.pick(&[4usize, 16, 31])];
                stress = true;
            }
            Kind::Wtlfu if !(h.random_state && h.ctor != 0) => {
                h.sizes = vec![*rc.pick(&[1usize, 4, 9]), *rc.pick(&[4usize, 8, 17]), *rc.pick(&[4usize, 8, 15])];
                h.samples = *rc.pick(&[41usize, 100, 255, 256, 257, 1000]);
                stress = true;
            }
            Kind::Tlfu => {
                h.samples = *rc.pick(&[41usize, 100, 255, 256, 257, 1000]);
                stress = true;
            }
            _ => {}
        }
        if stress && h.kind.n_lists() > 0 {
            let total: usize = h.sizes.iter().take(3).sum();
            h.universe = (total + 5) as u32;
        }
    }
    // rare "scale shapes": hundreds to thousands of entries, reached by macro events (Code::Fill)
    // whose calls are judged by their results only; the events around them get every oracle.
    // Thresholds that only large configurations cross (bulk paths, clamps, batched loops, table
    // growth) are out of reach of the tiny shapes whatever the number of runs.
    let mut scale = false;
    // "frequency shapes" (W-TinyLFU): a few keys are read 13..31 times in a row so that sketch
    // counters saturate (4-bit) within one sample period
    let mut freq = false;
    if !grid_point && !stress && prop != "C18" && !h.random_state && h.kind.n_lists() > 0 && rc.chance(1, 150) {
        let thorough = tier == Tier::Thorough;
        match h.kind {
            Kind::Lru => {
                h.sizes = vec![*rc.pick(&[130usize, 257, 300, 1030, 1100, 1500, 1500, 4200])];
                if thorough && rc.chance(1, 4) {
                    h.sizes = vec![*rc.pick(&[2100usize, 4200])];
                }
                scale = true;
            }
            Kind::Slru => {
                let (a, b) = *rc.pick(&[(130usize, 140usize), (56, 56), (112, 40), (20, 20), (28, 56), (224, 224), (448, 100), (1030, 1040), (8, 1100)]);
                h.sizes = vec![a, b];
                scale = true;
            }
            Kind::TwoQ => {
                h.sizes = vec![*rc.pick(&[50usize, 64, 100, 100, 128, 200, 255, 500, 1000, 1100])];
                let sz = h.sizes[0] as u64;
                let round = matches!(sz, 50 | 100 | 200);
                let q = |rc: &mut Rng| -> f64 {
                    if round && rc.chance(1, 2) {
                        return rc.below(101) as f64 / 100.0;
                    }
                    match rc.below(5) {
                        4 => rc.range(1, sz) as f64 / sz as f64,
                        0 => rc.below(101) as f64 / 100.0,
                        1 => rc.below(1001) as f64 / 1000.0,
                        2 => rc.below(9) as f64 / 8.0,
                        _ => *rc.pick(&[0.25, 0.5, 0.1, 0.3, 0.7, 1.0]),
                    }
                };
                let rr = q(&mut rc);
                let mut gr = q(&mut rc);
                if ((h.sizes[0] as f64) * gr).floor() < 1.0 {
                    gr = 0.5;
                }
                h.ratios = vec![rr, gr];
                scale = true;
            }
            Kind::Arc => {
                h.sizes = vec![*rc.pick(&[130usize, 300, 1030])];
                if thorough && rc.chance(1, 4) {
                    h.sizes = vec![4200];
                }
                scale = true;
            }
            Kind::Wtlfu => {
                if rc.chance(1, 2) {
                    let (w, p, q) = *rc.pick(&[(1usize, 64usize, 64usize), (1, 100, 30), (4, 1030, 8), (4, 8, 1040), (2, 130, 130), (3, 56, 56), (1, 20, 1100)]);
                    h.sizes = vec![w, p, q];
                    h.samples = *rc.pick(&[40usize, 1000, 10_000, 100_000]);
                    scale = true;
                } else {
                    h.sizes = vec![rc.range(1, 3) as usize, rc.range(1, 3) as usize, rc.range(1, 3) as usize];
                    h.samples = *rc.pick(&[1000usize, 10_000, 10_000]);
                    freq = true;
                }
            }
            _ => {}
        }
        if scale && thorough && rc.chance(1, 400) {
            h.key_type = "TK".into();
            // beyond 2^16 entries in one list (thorough tier only: such a run takes seconds)
            match h.kind {
                Kind::Lru => h.sizes = vec![*rc.pick(&[65_600usize, 65_600, 100_100])],
                Kind::Slru => h.sizes = if rc.chance(1, 2) { vec![8, 65_600] } else { vec![65_600, 8] },
                Kind::TwoQ => {
                    h.sizes = vec![70_000];
                    h.ratios = vec![0.5, 0.5];
                }
                _ => {}
            }
        }
        let total: usize = h.sizes.iter().take(3).sum();
        h.universe = (2 * total + 40) as u32;
        if scale {
            // an all-colliding hasher makes every call linear in the table size: keep the fills linear
            for hs in h.hashers.iter_mut() {
                if matches!(hs.kind, HKind::Const0 | HKind::Masked) {
                    hs.kind = HKind::Sip;
                }
            }
        }
        if freq {
            h.universe = (total + 4) as u32;
        }
    }
    // C18, long histories: an index of 32 or more buckets accumulates deletion marks under churn and
    // then rehashes its stored keys in place, calling their Hash from inside the table's own
    // bookkeeping: injection points no short history contains. One long fill, then a few calls.
    let mut churn = false;
    if prop == "C18" && !h.random_state && h.kind.n_lists() > 0 && rc.chance(1, 250) {
        match h.kind {
            Kind::Lru => h.sizes = vec![*rc.pick(&[15usize, 20, 28, 28, 40, 56, 64, 100, 130])],
            Kind::Slru => h.sizes = vec![*rc.pick(&[15usize, 28, 56]), *rc.pick(&[4usize, 28])],
            Kind::TwoQ => {
                h.sizes = vec![*rc.pick(&[28usize, 56])];
                h.ratios = vec![0.25, 0.5];
            }
            Kind::Arc => h.sizes = vec![*rc.pick(&[20usize, 28])],
            Kind::Wtlfu => h.sizes = vec![*rc.pick(&[2usize, 28]), 28, *rc.pick(&[4usize, 28])],
            _ => {}
        }
        for hs in h.hashers.iter_mut() {
            if matches!(hs.kind, HKind::Const0 | HKind::Masked) {
                hs.kind = HKind::Fnv;
            }
        }
        churn = true;
        scale = false;
        freq = false;
        stress = false;
    }
    let mut conversion_run = false;
    if (prop == "C17" && rc.chance(1, 16)) || (prop == "C02" && rc.chance(1, 32)) {
        // conversions (FromIterator / From<collection>) go through RandomState-keyed tables:
        // their result must still be a function of the input alone (C17); a key given twice must
        // hold the value given last (C02, `conversion_stale_value`)
        h = gen_header(Kind::Lru, &mut rc, false, 0, false, tier);
        h.random_state = true;
        h.key_type = "TK".into();
        h.with_cb = false;
        h.ctor = rc.range(1, 8) as u8;
        h.sizes = vec![rc.range(2, 7) as usize];
        if rc.chance(1, 3) {
            let d = rc.range(1, h.sizes[0] as u64 - 1) as usize;
            h.sizes.push(d);
        }
        h.universe = h.sizes[0] as u32 + 3;
        conversion_run = true;
        scale = false;
        freq = false;
    }
    let kind = h.kind;
    if prop == "C18" {
        // the fault-injection world needs the allocator's exact liveness table: tracked keys only
        h.random_state = false;
    }
    let controlled = !h.random_state;
    // allocator
    let alloc = match re.below(6) {
        0 => AllocSpec {
            mode: 1,
            pad_seed: re.next_u64() | 1,
            quarantine: true,
        },
        _ => AllocSpec::TRACK,
    };
    // history
    let max_len = match tier {
        Tier::Quick => pl.max_len,
        Tier::Thorough => {
            if prop == "C18" {
                40
            } else {
                200
            }
        }
    };
    let len = match rs.below(10) {
        0 => rs.below(4),
        1..=5 => rs.below(max_len / 2 + 1),
        _ => rs.below(max_len + 1),
    } as usize;
    let len = if kind == Kind::Tlfu && h.sizes[0] > 4096 { len.min(10) } else { len };
    let len = if grid_point { len.min(12) } else { len };
    let len = if stress {
        let total: usize = h.sizes.iter().take(3).sum();
        match kind {
            Kind::Tlfu => (h.samples * 5 / 2).min(2600),
            Kind::Wtlfu => (total * 3 + h.samples).min(1200),
            _ => (total * 2 + 40 + rs.below(60) as usize).min(700),
        }
    } else {
        len
    };
    let mut events: Vec<Event> = Vec::new();
    let mut next_val = 1u64;
    match kind {
        Kind::Tlfu => {
            let hashes = raw_hash_universe(&mut rc);
            for _ in 0..len {
                events.push(Event::new(gen_tlfu_op(&h, &mut ro, &hashes)));
            }
        }
        Kind::Sampled => {
            let mut hashes = raw_hash_universe(&mut rc);
            let big = rc.chance(1, 10);
            if big {
                hashes.truncate(1);
                h.universe = 1;
                h.max_cost = *rc.pick(&[0i64, 1000, -5, 1 << 40]);
            }
            let len = if h.samples > 1000 { len.min(30) } else { len };
            for _ in 0..len {
                events.push(Event::new(gen_sampled_op(&h, &mut ro, &hashes, big)));
            }
        }
        _ => {
            let total: usize = h.sizes.iter().take(3).sum();
            let mut kg = KeyGen {
                universe: h.universe,
                mode: if stress {
                    match rc.below(3) {
                        0 => 1,
                        1 => 2,
                        _ => 0,
                    }
                } else {
                    match rc.below(8) {
                        0 => 1,
                        1 => 2,
                        2..=3 => 3,
                        _ => 0,
                    }
                },
                cursor: 0,
                span: (total as u32 + 1).min(h.universe),
                hi: 0,
                total: total as u32,
            };
            let mix = rc.below(4) as u8;
            let table = weights(kind, mix, pl.iters, controlled);
            if churn {
                let n1 = rs.range(400, 1500);
                let mut f = Op::new(Code::Fill);
                f.fam = *rs.pick(&[0u8, 0, 2, 4]);
                f.k = 1;
                f.k2 = 1;
                f.n = n1 as i64;
                f.v = next_val;
                if f.fam == 4 {
                    f.w = *rs.pick(&[1u64, 3, 30]);
                }
                next_val += n1;
                events.push(Event::new(f));
                kg.mode = 5;
                kg.hi = n1 as u32;
                kg.universe = n1 as u32 + 8;
                for _ in 0..rs.range(1, 6) {
                    events.push(Event::new(gen_cache_op(kind, &h, &mut ro, &mut kg, &table, &mut next_val)));
                }
                // whole-cache operations on the filled cache: every entry is handed to user code
                match rs.below(4) {
                    0 => events.push(Event::new(Op::new(Code::Purge))),
                    1 if kind == Kind::Lru => {
                        let mut r = Op::new(Code::Resize);
                        r.n = *rs.pick(&[0i64, 1, 3, 10]);
                        events.push(Event::new(r));
                    }
                    _ => {}
                }
            } else if scale {
                kg.mode = 5;
                let fill = |fam: u8, k: u32, stride: u32, n: u64, next_val: &mut u64| -> Event {
                    let mut op = Op::new(Code::Fill);
                    op.fam = fam;
                    op.k = k;
                    op.k2 = stride;
                    op.n = n as i64;
                    if matches!(fam, 0 | 2 | 4) {
                        op.v = *next_val;
                        *next_val += n;
                    }
                    Event::new(op)
                };
                let n1 = total as u64 + rs.below(total as u64 + 20);
                let mut first = fill(*rs.pick(&[0u8, 0, 2, 4]), 1, 1, n1, &mut next_val);
                if first.op.fam == 4 {
                    first.op.w = *rs.pick(&[1u64, 2, 5, 8, h.sizes[0] as u64 + 1, h.sizes[0] as u64 + 2]);
                }
                events.push(first);
                kg.hi = n1 as u32;
                let phases = if total > 60_000 { 1 } else { rs.range(1, 3) };
                for _ in 0..phases {
                    if rs.chance(1, 2) {
                        // reads (promotions), overwrites or removals over a stretch of what was put
                        let a = 1 + rs.below(kg.hi as u64);
                        let l = rs.below((kg.hi as u64 - a + 2).min(total as u64 + 10));
                        events.push(fill(*rs.pick(&[1u8, 1, 0, 3]), a as u32, 1, l, &mut next_val));
                    }
                    for _ in 0..rs.range(4, 14) {
                        events.push(Event::new(gen_cache_op(kind, &h, &mut ro, &mut kg, &table, &mut next_val)));
                    }
                    if total <= 60_000 && rs.chance(1, 3) {
                        events.push(Event::new(Op::new(Code::Purge)));
                        for _ in 0..rs.range(1, 4) {
                            events.push(Event::new(gen_cache_op(kind, &h, &mut ro, &mut kg, &table, &mut next_val)));
                        }
                        let n2 = rs.below(total as u64 + 20);
                        let k0 = if rs.chance(1, 2) { 1 } else { kg.hi + 1 };
                        events.push(fill(0, k0, 1, n2, &mut next_val));
                        kg.hi = (k0 as u64 + n2).saturating_sub(1).max(1).min((h.universe as u64).saturating_sub(8).max(1)) as u32;
                    }
                }
            } else if freq {
                // hot keys: read 13..31 times in a row, before or after they are put
                let hot: Vec<u32> = (0..rs.range(2, 5)).map(|_| kg.next(&mut ro)).collect();
                let reads = |rs: &mut Rng, k: u32| -> Event {
                    let mut op = Op::new(Code::Fill);
                    op.fam = 1;
                    op.k = k;
                    op.k2 = 0;
                    op.n = *rs.pick(&[13i64, 14, 15, 15, 16, 16, 17, 18, 25, 31]);
                    Event::new(op)
                };
                let put = |k: u32, next_val: &mut u64| -> Event {
                    let mut op = Op::new(Code::Put);
                    op.k = k;
                    op.v = *next_val;
                    *next_val += 1;
                    Event::new(op)
                };
                let rounds = rs.range(3, 10);
                for _ in 0..rounds {
                    let k = *rs.pick(&hot);
                    match rs.below(3) {
                        0 => {
                            // put, read many times while it sits in the window, put again
                            events.push(put(k, &mut next_val));
                            events.push(reads(&mut rs, k));
                            for _ in 0..rs.below(2) {
                                events.push(Event::new(gen_cache_op(kind, &h, &mut ro, &mut kg, &table, &mut next_val)));
                            }
                            events.push(put(k, &mut next_val));
                        }
                        1 => {
                            // read many times (misses count), then put
                            events.push(reads(&mut rs, k));
                            events.push(put(k, &mut next_val));
                        }
                        _ => events.push(reads(&mut rs, k)),
                    }
                    for _ in 0..rs.below(7) {
                        events.push(Event::new(gen_cache_op(kind, &h, &mut ro, &mut kg, &table, &mut next_val)));
                    }
                }
            } else {
                for _ in 0..len {
                    events.push(Event::new(gen_cache_op(kind, &h, &mut ro, &mut kg, &table, &mut next_val)));
                }
            }
        }
    }
    // observer client (C13): bursts of read-only calls at seeded positions
    if pl.observers && !events.is_empty() && kind.n_lists() > 0 {
        let bursts = rs.range(1, 4);
        for _ in 0..bursts {
            let at = rs.below(events.len() as u64 + 1) as usize;
            let n = rs.range(1, 5);
            for j in 0..n {
                let mut ev = Event::new(gen_observer_op(kind, &h, &mut ro));
                ev.observer = true;
                events.insert((at + j as usize).min(events.len()), ev);
            }
        }
    }
    // forker client (C16 and friends): clone, lock step, independence, drop one twin
    let cloneable = matches!(kind, Kind::Lru | Kind::Slru | Kind::Wtlfu | Kind::Tlfu);
    if pl.forks && cloneable && !scale && !churn && !(kind == Kind::Lru && h.ctor == 9) && (prop == "C16" || rs.chance(1, 3)) {
        let at = rs.below(events.len() as u64 + 1) as usize;
        events.insert(at, Event::new(Op::new(Code::Fork)));
        let rest = events.len() - (at + 1);
        let lock = rs.below(rest as u64 + 1) as usize;
        for e in events.iter_mut().skip(at + 1).take(lock) {
            e.target = 2;
        }
        for e in events.iter_mut().skip(at + 1 + lock) {
            e.target = rs.below(2) as u8;
        }
        if rs.chance(2, 3) {
            let dat = at + 1 + lock + rs.below((rest - lock) as u64 + 1) as usize;
            let mut d = Op::new(Code::DropTwin);
            d.n = rs.below(2) as i64;
            events.insert(dat.min(events.len()), Event::new(d));
        }
    }
    let mut t = Trace {
        prop: prop.to_string(),
        seed: verif_seed,
        run_index,
        flavour: flavour().to_string(),
        header: h,
        alloc,
        events,
        faults: vec![],
        cb_panic_at: 0,
        probe_all: pl.probe_all && rs.chance(3, 4),
        env_b: None,
    };
    if prop == "C18" || stress || scale {
        t.probe_all = false;
    }
    if churn {
        t.header.universe = t.header.universe.max(1600);
    }
    if prop == "C15" && t.header.with_cb && rs.chance(1, 5) {
        // fault class of C15: the user's callback itself fails at its n-th invocation
        t.cb_panic_at = rs.range(1, 6);
    }
    // differential second execution
    if conversion_run {
        // single execution; the order-stability check is part of the construction
    } else if pl.env_pair && controlled {
        let mut hashers: Vec<HasherSpec> = (0..t.header.hashers.len()).map(|_| gen_hasher(&mut re)).collect();
        if scale {
            for hs in hashers.iter_mut() {
                if matches!(hs.kind, HKind::Const0 | HKind::Masked) {
                    hs.kind = HKind::Fnv;
                }
            }
        }
        t.env_b = Some(EnvB {
            hashers,
            alloc: AllocSpec {
                mode: 1,
                pad_seed: re.next_u64() | 1,
                quarantine: re.chance(3, 4),
            },
            strip_rehash: re.chance(1, 2),
            flip_owned: re.chance(1, 4),
            strip_observers: false,
            // a quarter of the pairs: B is built by the constructor that takes no hasher at all
            rs_ctor: if t.header.key_type == "TK" && re.chance(1, 4) {
                match kind {
                    Kind::Lru => Some(0),
                    Kind::Slru => Some(re.below(3) as u8),
                    Kind::TwoQ => Some(3 + re.below(2) as u8),
                    Kind::Arc => Some(re.below(2) as u8),
                    _ => None,
                }
            } else {
                None
            },
        });
    } else if pl.flip_owned_pair && rs.chance(1, 2) {
        t.env_b = Some(EnvB {
            hashers: t.header.hashers.clone(),
            alloc: t.alloc,
            strip_rehash: false,
            flip_owned: true,
            strip_observers: false,
            rs_ctor: None,
        });
    } else if pl.twin_observer_pair {
        t.env_b = Some(EnvB {
            hashers: t.header.hashers.clone(),
            alloc: t.alloc,
            strip_rehash: false,
            flip_owned: false,
            strip_observers: true,
            rs_ctor: None,
        });
    }
    t
}
