//! Explicit, replayable description of one simulated execution.
use crate::alloc::AllocSpec;
use crate::alpha::Kind;
use crate::hashers::{HasherSpec, KeyHasherSpec, HKIND_NAMES, KHKIND_NAMES};
use crate::ops::Event;
use crate::subj::Header;
use serde_json::{json, Value};

#[derive(Clone, Debug, PartialEq)]
pub struct EnvB {
    pub hashers: Vec<HasherSpec>,
    pub alloc: AllocSpec,
    /// drop the forced-rehash events in environment B
    pub strip_rehash: bool,
    /// flip the borrowed/owned lookup form of every event (C02's borrowed-form clause)
    pub flip_owned: bool,
    /// drop observer events (C13's twin run)
    pub strip_observers: bool,
    /// build execution B through the hasher-less constructor with this ctor code (RandomState)
    pub rs_ctor: Option<u8>,
}

#[derive(Clone, Debug, PartialEq)]
pub struct Trace {
    pub prop: String,
    pub seed: u64,
    pub run_index: u64,
    pub flavour: String,
    pub header: Header,
    pub alloc: AllocSpec,
    pub events: Vec<Event>,
    /// user-code call indices at which the call panics (fault plan)
    pub faults: Vec<u64>,
    /// the n-th invocation of the eviction callback panics after being recorded (0 = never)
    pub cb_panic_at: u64,
    /// probe every ident with peek/contains after every event
    pub probe_all: bool,
    /// differential second execution
    pub env_b: Option<EnvB>,
}

fn hs_json(h: &HasherSpec) -> Value {
    json!({"kind": HKIND_NAMES[h.kind as usize], "k0": h.k0, "k1": h.k1})
}
fn hs_parse(v: &Value) -> HasherSpec {
    let kind = v.get("kind").and_then(|x| x.as_str()).unwrap_or("identity");
    let ki = HKIND_NAMES.iter().position(|n| *n == kind).unwrap_or(2) as u64;
    HasherSpec::from_u(
        ki,
        v.get("k0").and_then(|x| x.as_u64()).unwrap_or(0),
        v.get("k1").and_then(|x| x.as_u64()).unwrap_or(0),
    )
}
fn alloc_json(a: &AllocSpec) -> Value {
    json!({"mode": a.mode, "pad_seed": a.pad_seed, "quarantine": a.quarantine})
}
fn alloc_parse(v: &Value) -> AllocSpec {
    AllocSpec {
        mode: v.get("mode").and_then(|x| x.as_u64()).unwrap_or(1) as u8,
        pad_seed: v.get("pad_seed").and_then(|x| x.as_u64()).unwrap_or(0),
        quarantine: v.get("quarantine").and_then(|x| x.as_bool()).unwrap_or(true),
    }
}
fn f64_json(x: f64) -> Value {
    if x.is_nan() {
        json!("NaN")
    } else if x.is_infinite() {
        json!(if x > 0.0 { "inf" } else { "-inf" })
    } else {
        json!(x)
    }
}
fn f64_parse(v: &Value) -> f64 {
    match v {
        Value::String(s) if s == "NaN" => f64::NAN,
        Value::String(s) if s == "inf" => f64::INFINITY,
        Value::String(s) if s == "-inf" => f64::NEG_INFINITY,
        _ => v.as_f64().unwrap_or(0.0),
    }
}

impl Trace {
    pub fn to_json(&self) -> Value {
        let h = &self.header;
        let mut v = json!({
            "property": self.prop,
            "seed": self.seed,
            "run_index": self.run_index,
            "flavour": self.flavour,
            "subject": h.kind.name(),
            "config": {
                "key_type": h.key_type,
                "constructor": h.ctor,
                "sizes": h.sizes,
                "ratios": h.ratios.iter().map(|r| f64_json(*r)).collect::<Vec<_>>(),
                "samples": h.samples,
                "max_cost": h.max_cost,
                "random_state": h.random_state,
                "with_callback": h.with_cb,
                "universe": h.universe,
            },
            "env": {
                "hashers": h.hashers.iter().map(hs_json).collect::<Vec<_>>(),
                "key_hasher": {"kind": KHKIND_NAMES[h.key_hasher.kind as usize], "k": h.key_hasher.k},
                "clock": h.clock,
                "alloc": alloc_json(&self.alloc),
            },
            "events": self.events.iter().map(|e| e.to_json()).collect::<Vec<_>>(),
            "faults": self.faults,
            "probe_all": self.probe_all,
            "callback_panic_at": self.cb_panic_at,
        });
        if let Some(b) = &self.env_b {
            v["env_b"] = json!({
                "hashers": b.hashers.iter().map(hs_json).collect::<Vec<_>>(),
                "alloc": alloc_json(&b.alloc),
                "strip_rehash": b.strip_rehash,
                "flip_owned": b.flip_owned,
                "strip_observers": b.strip_observers,
                "rs_ctor": b.rs_ctor,
            });
        }
        v
    }

    pub fn from_json(v: &Value) -> Result<Trace, String> {
        let cfg = v.get("config").ok_or("config missing")?;
        let env = v.get("env").ok_or("env missing")?;
        let gu = |o: &Value, f: &str| o.get(f).and_then(|x| x.as_u64()).unwrap_or(0);
        let kind = Kind::parse(v.get("subject").and_then(|x| x.as_str()).unwrap_or(""))
            .ok_or("unknown subject")?;
        let kh = env.get("key_hasher").cloned().unwrap_or(json!({}));
        let khk = kh.get("kind").and_then(|x| x.as_str()).unwrap_or("identity");
        let header = Header {
            kind,
            key_type: cfg.get("key_type").and_then(|x| x.as_str()).unwrap_or("TK").to_string(),
            ctor: gu(cfg, "constructor") as u8,
            sizes: cfg
                .get("sizes")
                .and_then(|x| x.as_array())
                .map(|a| a.iter().map(|e| e.as_u64().unwrap_or(0) as usize).collect())
                .unwrap_or_default(),
            ratios: cfg
                .get("ratios")
                .and_then(|x| x.as_array())
                .map(|a| a.iter().map(f64_parse).collect())
                .unwrap_or_default(),
            samples: gu(cfg, "samples") as usize,
            max_cost: cfg.get("max_cost").and_then(|x| x.as_i64()).unwrap_or(0),
            hashers: env
                .get("hashers")
                .and_then(|x| x.as_array())
                .map(|a| a.iter().map(hs_parse).collect())
                .unwrap_or_default(),
            key_hasher: KeyHasherSpec::from_u(
                KHKIND_NAMES.iter().position(|n| *n == khk).unwrap_or(0) as u64,
                gu(&kh, "k"),
            ),
            random_state: cfg.get("random_state").and_then(|x| x.as_bool()).unwrap_or(false),
            with_cb: cfg.get("with_callback").and_then(|x| x.as_bool()).unwrap_or(false),
            clock: env.get("clock").and_then(|x| x.as_u64()),
            universe: gu(cfg, "universe") as u32,
        };
        let mut events = Vec::new();
        for e in v.get("events").and_then(|x| x.as_array()).ok_or("events missing")? {
            events.push(Event::from_json(e)?);
        }
        let env_b = v.get("env_b").map(|b| EnvB {
            hashers: b
                .get("hashers")
                .and_then(|x| x.as_array())
                .map(|a| a.iter().map(hs_parse).collect())
                .unwrap_or_default(),
            alloc: alloc_parse(b.get("alloc").unwrap_or(&json!({}))),
            strip_rehash: b.get("strip_rehash").and_then(|x| x.as_bool()).unwrap_or(false),
            flip_owned: b.get("flip_owned").and_then(|x| x.as_bool()).unwrap_or(false),
            strip_observers: b.get("strip_observers").and_then(|x| x.as_bool()).unwrap_or(false),
            rs_ctor: b.get("rs_ctor").and_then(|x| x.as_u64()).map(|x| x as u8),
        });
        Ok(Trace {
            prop: v.get("property").and_then(|x| x.as_str()).unwrap_or("").to_string(),
            seed: gu(v, "seed"),
            run_index: gu(v, "run_index"),
            flavour: v.get("flavour").and_then(|x| x.as_str()).unwrap_or("std").to_string(),
            header,
            alloc: alloc_parse(env.get("alloc").unwrap_or(&json!({}))),
            events,
            faults: v
                .get("faults")
                .and_then(|x| x.as_array())
                .map(|a| a.iter().map(|e| e.as_u64().unwrap_or(0)).collect())
                .unwrap_or_default(),
            probe_all: v.get("probe_all").and_then(|x| x.as_bool()).unwrap_or(false),
            cb_panic_at: v.get("callback_panic_at").and_then(|x| x.as_u64()).unwrap_or(0),
            env_b,
        })
    }
}
