//! Thread-local simulated world: object ledger, numbered user-code call points, fault plan,
//! watchdog, and the sink for violations detected *inside* user code (which cannot return them).
//!
//! Workers are single-threaded; everything here is per-thread and reset per execution.
use std::cell::{Cell, RefCell};

#[derive(Clone, Copy, Debug, PartialEq, Eq, PartialOrd, Ord)]
#[repr(u8)]
pub enum CallKind {
    HashK = 0,
    EqK = 1,
    HashQ = 2,
    EqQ = 3,
    CloneK = 4,
    CloneV = 5,
    DropK = 6,
    DropV = 7,
    BuildHasher = 8,
    HasherFinish = 9,
    HasherClone = 10,
    KeyHasher = 11,
    Callback = 12,
    CallbackClone = 13,
}
pub const N_CALL_KINDS: usize = 14;
pub const CALL_KIND_NAMES: [&str; N_CALL_KINDS] = [
    "hash_k",
    "eq_k",
    "hash_q",
    "eq_q",
    "clone_k",
    "clone_v",
    "drop_k",
    "drop_v",
    "build_hasher",
    "hasher_finish",
    "hasher_clone",
    "key_hasher",
    "callback",
    "callback_clone",
];

/// payload of an injected panic
pub struct InjectedPanic {
    pub call_index: u64,
    pub kind: CallKind,
}
/// payload of the per-event step bound
pub struct WatchdogPanic;
/// payload of a panic thrown by the simulated eviction callback itself (C15's fault class: the
/// callback has been invoked and recorded, then fails)
pub struct SoftCbPanic;

#[derive(Clone, Copy, Debug, PartialEq, Eq)]
pub enum ObjState {
    Unknown = 0,
    Live = 1,
    Dropped = 2,
}

pub const CANARY_MAGIC: u64 = 0x5AFE_C0DE_0B1E_C7ED;
pub const CANARY_DEAD: u64 = 0xDEAD_0B1E_C7DE_AD00;

#[derive(Clone, Debug)]
pub struct AsyncViolation {
    pub prop: &'static str,
    pub oracle: &'static str,
    pub detail: String,
}

pub struct World {
    /// per-serial state; serial 0 is never used
    pub ledger: Vec<u8>,
    pub created: u64,
    pub dropped: u64,
    pub violations: Vec<AsyncViolation>,
    /// where the last panic was raised (file:line) if it was not one of ours
    pub last_panic: Option<String>,
    pub cb_logs: Vec<Vec<(u32, u64)>>, // per callback id: (ident, val id)
}

thread_local! {
    static WORLD: RefCell<World> = RefCell::new(World {
        ledger: Vec::new(), created: 0, dropped: 0, violations: Vec::new(), last_panic: None, cb_logs: Vec::new(),
    });
    static CALLS: Cell<u64> = const { Cell::new(0) };
    static EVENT_CALLS: Cell<u64> = const { Cell::new(0) };
    static EVENT_BUDGET: Cell<u64> = const { Cell::new(u64::MAX) };
    static FAULT_AT: Cell<u64> = const { Cell::new(0) };       // 0 = none
    static FAULT_AT2: Cell<u64> = const { Cell::new(0) };      // second fault (double-fault class)
    static FAULT_FIRED: Cell<u32> = const { Cell::new(0) };
    static FAULT_KIND_FIRED: Cell<u8> = const { Cell::new(255) };
    static KIND_COUNTS: RefCell<[u64; N_CALL_KINDS]> = const { RefCell::new([0; N_CALL_KINDS]) };
    static WATCHDOG_FIRED: Cell<bool> = const { Cell::new(false) };
    static QUIET: Cell<bool> = const { Cell::new(false) };
    static SUSPENDED: Cell<bool> = const { Cell::new(false) };
    static CB_PANIC_IN: Cell<u64> = const { Cell::new(0) };
    /// the injection point of this execution lies inside an index rehash: after the fault, probe the
    /// index through lookups before anything traverses it (known finding F1)
    static INDEX_PROBE: Cell<bool> = const { Cell::new(false) };
    /// kind of every user-code call of the run, in order (only when asked for: long C18 histories)
    static KIND_LOG: RefCell<Option<Vec<(u8, u32)>>> = const { RefCell::new(None) };
    /// index of the event being executed (u32::MAX outside events)
    static EVENT_IDX: Cell<u32> = const { Cell::new(u32::MAX) };
}

/// the n-th callback invocation from now on panics after it has been recorded (0 = never)
pub fn set_cb_panic(n: u64) {
    CB_PANIC_IN.with(|c| c.set(n));
}
/// called by the simulated callback after recording an invocation
pub fn cb_panic_due() -> bool {
    CB_PANIC_IN.with(|c| {
        let n = c.get();
        if n == 0 {
            return false;
        }
        c.set(n - 1);
        n == 1
    })
}

struct Resume(bool);
impl Drop for Resume {
    fn drop(&mut self) {
        SUSPENDED.with(|c| c.set(self.0));
    }
}
/// run oracle-side code that calls into user code (estimates, key digests): such calls are
/// neither numbered nor eligible for fault injection
pub fn suspended<R>(f: impl FnOnce() -> R) -> R {
    let prev = SUSPENDED.with(|c| c.replace(true));
    let _g = Resume(prev);
    f()
}

pub fn reset() {
    WORLD.with(|w| {
        let mut w = w.borrow_mut();
        w.ledger.clear();
        w.ledger.push(0);
        w.created = 0;
        w.dropped = 0;
        w.violations.clear();
        w.last_panic = None;
        w.cb_logs.clear();
    });
    CALLS.with(|c| c.set(0));
    EVENT_CALLS.with(|c| c.set(0));
    EVENT_BUDGET.with(|c| c.set(u64::MAX));
    FAULT_AT.with(|c| c.set(0));
    FAULT_AT2.with(|c| c.set(0));
    FAULT_FIRED.with(|c| c.set(0));
    FAULT_KIND_FIRED.with(|c| c.set(255));
    KIND_COUNTS.with(|k| *k.borrow_mut() = [0; N_CALL_KINDS]);
    WATCHDOG_FIRED.with(|c| c.set(false));
    CB_PANIC_IN.with(|c| c.set(0));
    KIND_LOG.with(|k| *k.borrow_mut() = None);
}

thread_local! {
    /// long histories (macro events): after any fault, probe every index before traversing it
    static CONTAIN: Cell<bool> = const { Cell::new(false) };
}
pub fn set_contain(on: bool) {
    CONTAIN.with(|c| c.set(on));
}
pub fn contain() -> bool {
    CONTAIN.with(|c| c.get())
}
pub fn set_index_probe(on: bool) {
    INDEX_PROBE.with(|c| c.set(on));
}
pub fn index_probe() -> bool {
    // CACHESIM_NO_CONTAIN=1 switches the containment off: the replay of known/C18-F1-*.json then
    // runs into the undefined behaviour itself (typically a crash inside the audit or in Drop)
    static OFF: std::sync::OnceLock<bool> = std::sync::OnceLock::new();
    INDEX_PROBE.with(|c| c.get()) && !*OFF.get_or_init(|| std::env::var_os("CACHESIM_NO_CONTAIN").is_some())
}

/// start recording the kind of every user-code call (index i-1 = call number i)
pub fn record_kinds() {
    KIND_LOG.with(|k| *k.borrow_mut() = Some(Vec::with_capacity(1 << 16)));
}
pub fn set_event_idx(i: u32) {
    EVENT_IDX.with(|c| c.set(i));
}
pub fn take_kinds() -> Vec<(u8, u32)> {
    KIND_LOG.with(|k| k.borrow_mut().take()).unwrap_or_default()
}

pub fn set_fault(at: u64, at2: u64) {
    FAULT_AT.with(|c| c.set(at));
    FAULT_AT2.with(|c| c.set(at2));
}
pub fn faults_fired() -> u32 {
    FAULT_FIRED.with(|c| c.get())
}
pub fn fault_kind_fired() -> Option<usize> {
    let k = FAULT_KIND_FIRED.with(|c| c.get());
    if k == 255 {
        None
    } else {
        Some(k as usize)
    }
}
pub fn calls() -> u64 {
    CALLS.with(|c| c.get())
}
pub fn kind_counts() -> [u64; N_CALL_KINDS] {
    KIND_COUNTS.with(|k| *k.borrow())
}
pub fn begin_event(budget: u64) {
    EVENT_CALLS.with(|c| c.set(0));
    EVENT_BUDGET.with(|c| c.set(budget));
}
pub fn end_event() {
    EVENT_BUDGET.with(|c| c.set(u64::MAX));
}
pub fn watchdog_fired() -> bool {
    WATCHDOG_FIRED.with(|c| c.replace(false))
}
pub fn set_quiet(q: bool) {
    QUIET.with(|c| c.set(q));
}
pub fn quiet() -> bool {
    QUIET.with(|c| c.get())
}

/// A numbered user-code call point. May panic (injected fault / watchdog).
#[inline]
pub fn user_call(kind: CallKind) {
    if SUSPENDED.with(|c| c.get()) {
        return;
    }
    let n = CALLS.with(|c| {
        let n = c.get() + 1;
        c.set(n);
        n
    });
    KIND_COUNTS.with(|k| k.borrow_mut()[kind as usize] += 1);
    KIND_LOG.with(|k| {
        if let Some(v) = k.borrow_mut().as_mut() {
            let e = EVENT_IDX.with(|c| c.get());
            crate::alloc::harness_scope(|| v.push((kind as u8, e)));
        }
    });
    let panicking = std::thread::panicking();
    let ec = EVENT_CALLS.with(|c| {
        let n = c.get() + 1;
        c.set(n);
        n
    });
    if ec > EVENT_BUDGET.with(|c| c.get()) && !panicking {
        EVENT_BUDGET.with(|c| c.set(u64::MAX));
        WATCHDOG_FIRED.with(|c| c.set(true));
        std::panic::panic_any(WatchdogPanic);
    }
    let f1 = FAULT_AT.with(|c| c.get());
    let f2 = FAULT_AT2.with(|c| c.get());
    if (n == f1 || n == f2) && n != 0 {
        if panicking {
            // never raise a second panic while unwinding: that would be a harness-made abort
            return;
        }
        FAULT_FIRED.with(|c| c.set(c.get() + 1));
        FAULT_KIND_FIRED.with(|c| c.set(kind as u8));
        std::panic::panic_any(InjectedPanic {
            call_index: n,
            kind,
        });
    }
}

pub fn report(prop: &'static str, oracle: &'static str, detail: String) {
    crate::alloc::harness_scope(|| {
        WORLD.with(|w| {
            if let Ok(mut w) = w.try_borrow_mut() {
                if w.violations.len() < 64 {
                    w.violations.push(AsyncViolation {
                        prop,
                        oracle,
                        detail,
                    });
                }
            }
        })
    })
}

pub fn take_violations() -> Vec<AsyncViolation> {
    WORLD.with(|w| std::mem::take(&mut w.borrow_mut().violations))
}

pub fn new_obj() -> u64 {
    crate::alloc::harness_scope(|| {
        WORLD.with(|w| {
            let mut w = w.borrow_mut();
            let s = w.ledger.len() as u64;
            w.ledger.push(ObjState::Live as u8);
            w.created += 1;
            s
        })
    })
}

pub fn obj_state(serial: u64) -> ObjState {
    WORLD.with(|w| {
        let w = w.borrow();
        match w.ledger.get(serial as usize) {
            Some(1) => ObjState::Live,
            Some(2) => ObjState::Dropped,
            _ => ObjState::Unknown,
        }
    })
}

/// returns false if this drop is illegitimate (double drop / garbage)
pub fn drop_obj(serial: u64, canary: u64, what: &'static str) -> bool {
    crate::alloc::harness_scope(|| drop_obj_(serial, canary, what))
}
fn drop_obj_(serial: u64, canary: u64, what: &'static str) -> bool {
    if canary != (serial ^ CANARY_MAGIC) || serial == 0 {
        report(
            "C04",
            "drop_of_garbage",
            format!(
                "{} dropped with bad canary (serial field {:#x}, canary {:#x}): the library dropped uninitialised, freed or already-dropped memory",
                what, serial, canary
            ),
        );
        return false;
    }
    let st = obj_state(serial);
    match st {
        ObjState::Live => {
            WORLD.with(|w| {
                let mut w = w.borrow_mut();
                w.ledger[serial as usize] = ObjState::Dropped as u8;
                w.dropped += 1;
            });
            true
        }
        ObjState::Dropped => {
            report(
                "C04",
                "double_drop",
                format!("{} serial {} dropped twice", what, serial),
            );
            false
        }
        ObjState::Unknown => {
            report(
                "C04",
                "drop_of_unknown",
                format!("{} serial {} was never created", what, serial),
            );
            false
        }
    }
}

/// called whenever user code or the harness *reads* an object
pub fn check_use(serial: u64, canary: u64, what: &'static str) -> bool {
    crate::alloc::harness_scope(|| check_use_(serial, canary, what))
}
fn check_use_(serial: u64, canary: u64, what: &'static str) -> bool {
    if canary != (serial ^ CANARY_MAGIC) || serial == 0 {
        report(
            "C03",
            "use_of_garbage",
            format!(
                "{} read with bad canary (serial field {:#x}, canary {:#x}): uninitialised, freed or dropped memory was handed to user code",
                what, serial, canary
            ),
        );
        return false;
    }
    match obj_state(serial) {
        ObjState::Live => true,
        _ => {
            report(
                "C03",
                "use_after_drop",
                format!("{} serial {} used after it was dropped", what, serial),
            );
            false
        }
    }
}

pub fn live_serials() -> Vec<u64> {
    WORLD.with(|w| {
        let w = w.borrow();
        w.ledger
            .iter()
            .enumerate()
            .filter(|(_, s)| **s == ObjState::Live as u8)
            .map(|(i, _)| i as u64)
            .collect()
    })
}
pub fn live_count() -> u64 {
    WORLD.with(|w| {
        let w = w.borrow();
        w.created - w.dropped
    })
}
pub fn created_count() -> u64 {
    WORLD.with(|w| w.borrow().created)
}

// ---- callback logs -------------------------------------------------------------------------

pub fn new_cb_log() -> u32 {
    crate::alloc::harness_scope(|| {
        WORLD.with(|w| {
            let mut w = w.borrow_mut();
            w.cb_logs.push(Vec::new());
            (w.cb_logs.len() - 1) as u32
        })
    })
}
pub fn cb_log_count() -> usize {
    WORLD.with(|w| w.borrow().cb_logs.len())
}
pub fn latest_cb_log() -> u32 {
    WORLD.with(|w| (w.borrow().cb_logs.len().max(1) - 1) as u32)
}
pub fn cb_push(id: u32, ident: u32, val: u64) {
    crate::alloc::harness_scope(|| {
        WORLD.with(|w| {
            let mut w = w.borrow_mut();
            if let Some(l) = w.cb_logs.get_mut(id as usize) {
                l.push((ident, val));
            }
        })
    })
}
pub fn cb_take(id: u32) -> Vec<(u32, u64)> {
    WORLD.with(|w| {
        let mut w = w.borrow_mut();
        match w.cb_logs.get_mut(id as usize) {
            Some(l) => std::mem::take(l),
            None => Vec::new(),
        }
    })
}

// ---- panic hook ----------------------------------------------------------------------------

pub fn install_panic_hook() {
    std::panic::set_hook(Box::new(|info| {
        let ours = info.payload().is::<InjectedPanic>() || info.payload().is::<WatchdogPanic>() || info.payload().is::<SoftCbPanic>();
        if !ours {
            let loc = info
                .location()
                .map(|l| format!("{}:{}", l.file(), l.line()))
                .unwrap_or_else(|| "?".into());
            let msg = if let Some(s) = info.payload().downcast_ref::<&str>() {
                s.to_string()
            } else if let Some(s) = info.payload().downcast_ref::<String>() {
                s.clone()
            } else {
                String::new()
            };
            crate::alloc::harness_scope(|| {
                WORLD.with(|w| {
                    if let Ok(mut w) = w.try_borrow_mut() {
                        w.last_panic = Some(format!("{} ({})", loc, msg));
                    }
                });
            });
            if !quiet() {
                eprintln!("[cachesim] panic at {}: {}", loc, msg);
            }
        }
    }));
}

pub fn take_last_panic() -> Option<String> {
    WORLD.with(|w| w.borrow_mut().last_panic.take())
}
