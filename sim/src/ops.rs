//! Event vocabulary with explicit (de)serialisation, and the normalised result type.
use serde_json::{json, Map, Value};

macro_rules! codes {
    ($($name:ident = $s:expr),* $(,)?) => {
        #[derive(Clone, Copy, Debug, PartialEq, Eq, PartialOrd, Ord, Hash)]
        pub enum Code { $($name),* }
        impl Code {
            pub const ALL: &'static [Code] = &[$(Code::$name),*];
            pub fn name(self) -> &'static str { match self { $(Code::$name => $s),* } }
            pub fn parse(s: &str) -> Option<Code> { match s { $($s => Some(Code::$name),)* _ => None } }
        }
    }
}

codes! {
    // Cache trait
    Put = "put", Get = "get", GetMut = "get_mut", Peek = "peek", PeekMut = "peek_mut",
    Contains = "contains", Remove = "remove", Purge = "purge", Len = "len", Cap = "cap", IsEmpty = "is_empty",
    // RawLRU
    Resize = "resize", GetLru = "get_lru", GetLruMut = "get_lru_mut", GetMru = "get_mru", GetMruMut = "get_mru_mut",
    PeekLru = "peek_lru", PeekLruMut = "peek_lru_mut", PeekMru = "peek_mru", PeekMruMut = "peek_mru_mut",
    PeekOrPut = "peek_or_put", PeekMutOrPut = "peek_mut_or_put", ContainsOrPut = "contains_or_put", RemoveLru = "remove_lru",
    // SegmentedCache (list: 0 probationary, 1 protected)
    PutProtected = "put_protected", SegPeekLru = "seg_peek_lru", SegPeekLruMut = "seg_peek_lru_mut",
    SegPeekMru = "seg_peek_mru", SegPeekMruMut = "seg_peek_mru_mut", SegRemoveLru = "seg_remove_lru",
    // per-list accessors of the composites
    ListLen = "list_len", ListCap = "list_cap", Partition = "partition", Debug = "debug",
    // iterators: list, fam (family), xs = word (0 next, 1 next_back), n = clone position (-1 none), w = first write id (0 none)
    Iter = "iter",
    // environment / clients
    Rehash = "rehash", Fork = "fork", DropTwin = "drop_twin",
    // macro event of the scale shapes: n calls on the keys k, k+k2, k+2*k2, ... (k2 = stride, 0 = the same
    // key every time); fam 0 = put (values v, v+1, ...), 1 = get, 2 = put then get, 3 = remove,
    // 4 = put then get of the key put w calls earlier
    Fill = "fill",
    // TinyLFU (k/k2 = key idents, xs = hashes or key idents, v = raw hash)
    TInc = "t_inc_hash", TIncKey = "t_inc_key", TIncKeys = "t_inc_keys", TIncHashes = "t_inc_hashes",
    TTryReset = "t_try_reset", TClear = "t_clear", TEst = "t_est_hash", TEstKey = "t_est_key",
    TContains = "t_contains_hash", TContainsKey = "t_contains_key", TCmp = "t_cmp",
    // SampledLFU (k = key ident, v = raw hash, n = cost, xs = flattened pairs)
    SInc = "s_inc", SIncH = "s_inc_hash", SUpd = "s_update", SUpdH = "s_update_hash", SRem = "s_remove",
    SRemH = "s_remove_hash", SClear = "s_clear", SMax = "s_max_cost", SFill = "s_fill_sample", SRoom = "s_room_left",
}

#[derive(Clone, Debug, PartialEq)]
pub struct Op {
    pub code: Code,
    pub k: u32,
    pub k2: u32,
    pub v: u64,
    /// value id written through a mutable reference (0 = no write)
    pub w: u64,
    pub n: i64,
    /// look the key up by the owned key type instead of the borrowed form
    pub owned: bool,
    pub list: u8,
    pub fam: u8,
    pub xs: Vec<u64>,
}

impl Op {
    pub fn new(code: Code) -> Op {
        Op {
            code,
            k: 0,
            k2: 0,
            v: 0,
            w: 0,
            n: 0,
            owned: false,
            list: 0,
            fam: 0,
            xs: Vec::new(),
        }
    }
    pub fn k(mut self, k: u32) -> Op {
        self.k = k;
        self
    }
    pub fn v(mut self, v: u64) -> Op {
        self.v = v;
        self
    }
    pub fn w(mut self, w: u64) -> Op {
        self.w = w;
        self
    }
    pub fn n(mut self, n: i64) -> Op {
        self.n = n;
        self
    }
    pub fn list(mut self, l: u8) -> Op {
        self.list = l;
        self
    }
    pub fn owned(mut self, o: bool) -> Op {
        self.owned = o;
        self
    }

    pub fn to_json(&self) -> Value {
        let mut m = Map::new();
        m.insert("op".into(), json!(self.code.name()));
        if self.k != 0 {
            m.insert("k".into(), json!(self.k));
        }
        if self.k2 != 0 {
            m.insert("k2".into(), json!(self.k2));
        }
        if self.v != 0 {
            m.insert("v".into(), json!(self.v));
        }
        if self.w != 0 {
            m.insert("w".into(), json!(self.w));
        }
        if self.n != 0 {
            m.insert("n".into(), json!(self.n));
        }
        if self.owned {
            m.insert("owned".into(), json!(true));
        }
        if self.list != 0 {
            m.insert("list".into(), json!(self.list));
        }
        if self.fam != 0 {
            m.insert("fam".into(), json!(self.fam));
        }
        if !self.xs.is_empty() {
            m.insert("xs".into(), json!(self.xs));
        }
        Value::Object(m)
    }

    pub fn from_json(v: &Value) -> Result<Op, String> {
        let name = v.get("op").and_then(|x| x.as_str()).ok_or("op: missing name")?;
        let code = Code::parse(name).ok_or_else(|| format!("unknown op {}", name))?;
        let g = |f: &str| v.get(f).and_then(|x| x.as_u64()).unwrap_or(0);
        Ok(Op {
            code,
            k: g("k") as u32,
            k2: g("k2") as u32,
            v: g("v"),
            w: g("w"),
            n: v.get("n").and_then(|x| x.as_i64()).unwrap_or(0),
            owned: v.get("owned").and_then(|x| x.as_bool()).unwrap_or(false),
            list: g("list") as u8,
            fam: g("fam") as u8,
            xs: v
                .get("xs")
                .and_then(|x| x.as_array())
                .map(|a| a.iter().map(|e| e.as_u64().unwrap_or(0)).collect())
                .unwrap_or_default(),
        })
    }

    pub fn show(&self) -> String {
        self.to_json().to_string()
    }

    /// the operation never changes what later operations return (C13's list)
    pub fn is_read_only(&self) -> bool {
        use Code::*;
        match self.code {
            Peek | Contains | Len | Cap | IsEmpty | GetMru | PeekLru | PeekMru | SegPeekLru
            | SegPeekMru | ListLen | ListCap | Partition | Debug | TEst | TEstKey | TContains
            | TContainsKey | TCmp | SRoom => true,
            PeekMut | GetMruMut | PeekLruMut | PeekMruMut | SegPeekLruMut | SegPeekMruMut => {
                self.w == 0
            }
            Iter => self.w == 0,
            _ => false,
        }
    }
}

/// `resize` argument: negative values encode huge capacities
pub fn resize_arg(n: i64) -> usize {
    match n {
        -1 => usize::MAX,
        -2 => usize::MAX / 2 + 1,
        -3 => 1usize << 62,
        -4 => (1u64 << 32) as usize,
        -5 => ((1u64 << 40) + 3) as usize,
        -6 => ((1u64 << 32) + 1) as usize,
        x if x < 0 => 0,
        x => x as usize,
    }
}

/// which subject(s) an event addresses
#[derive(Clone, Debug, PartialEq)]
pub struct Event {
    /// 0 = primary, 1 = twin, 2 = both in lock step
    pub target: u8,
    /// issued by the observer client (C13) rather than the mutator
    pub observer: bool,
    pub op: Op,
}
impl Event {
    pub fn new(op: Op) -> Event {
        Event {
            target: 0,
            observer: false,
            op,
        }
    }
    pub fn to_json(&self) -> Value {
        let mut v = self.op.to_json();
        let m = v.as_object_mut().unwrap();
        if self.target != 0 {
            m.insert("target".into(), json!(self.target));
        }
        if self.observer {
            m.insert("observer".into(), json!(true));
        }
        v
    }
    pub fn from_json(v: &Value) -> Result<Event, String> {
        Ok(Event {
            target: v.get("target").and_then(|x| x.as_u64()).unwrap_or(0) as u8,
            observer: v.get("observer").and_then(|x| x.as_bool()).unwrap_or(false),
            op: Op::from_json(v)?,
        })
    }
}

#[derive(Clone, Debug, PartialEq)]
pub enum PutRes {
    Put,
    Update(u64),
    Evicted(u32, u64),
    EvictedAndUpdate(u32, u64, u64),
}

/// normalised result of a library call: keys as idents, values as value ids
#[derive(Clone, Debug, PartialEq)]
pub enum Val {
    Unit,
    Bool(bool),
    Num(i64),
    None,
    V(u64),
    KV(u32, u64),
    Put(PutRes),
    Pair(Box<Val>, Box<Val>),
    List(Vec<Val>),
    Str(String),
    /// the call panicked (location or payload description)
    Panic(String),
    /// the operation does not exist on this subject (harness error if reached)
    Unsupported,
}

impl Val {
    pub fn show(&self) -> String {
        match self {
            Val::Unit => "()".into(),
            Val::Bool(b) => b.to_string(),
            Val::Num(n) => n.to_string(),
            Val::None => "None".into(),
            Val::V(v) => format!("Some(v{})", v),
            Val::KV(k, v) => format!("Some((k{},v{}))", k, v),
            Val::Put(PutRes::Put) => "Put".into(),
            Val::Put(PutRes::Update(v)) => format!("Update(v{})", v),
            Val::Put(PutRes::Evicted(k, v)) => format!("Evicted{{k{},v{}}}", k, v),
            Val::Put(PutRes::EvictedAndUpdate(k, v, u)) => {
                format!("EvictedAndUpdate{{evicted:(k{},v{}),update:v{}}}", k, v, u)
            }
            Val::Pair(a, b) => format!("({}, {})", a.show(), b.show()),
            Val::List(xs) if xs.len() > 96 => {
                // long lists: both ends, the length and a hash of the whole (messages stay readable,
                // the digest stays sensitive to every element)
                let mut h = 0xC0DEu64;
                for x in xs {
                    h = crate::rng::mix(h, crate::rng::fnv64(&x.show()));
                }
                format!(
                    "[{},..({} more, hash {:016x})..,{}]",
                    xs[..24].iter().map(|x| x.show()).collect::<Vec<_>>().join(","),
                    xs.len() - 32,
                    h,
                    xs[xs.len() - 8..].iter().map(|x| x.show()).collect::<Vec<_>>().join(",")
                )
            }
            Val::List(xs) => format!(
                "[{}]",
                xs.iter().map(|x| x.show()).collect::<Vec<_>>().join(",")
            ),
            Val::Str(s) => format!("{:?}", s),
            Val::Panic(s) => format!("PANIC<{}>", s),
            Val::Unsupported => "UNSUPPORTED".into(),
        }
    }
    pub fn is_panic(&self) -> bool {
        matches!(self, Val::Panic(_))
    }
    pub fn class(&self) -> u8 {
        match self {
            Val::Unit => 0,
            Val::Bool(false) => 1,
            Val::Bool(true) => 2,
            Val::Num(_) => 3,
            Val::None => 4,
            Val::V(_) => 5,
            Val::KV(..) => 6,
            Val::Put(PutRes::Put) => 7,
            Val::Put(PutRes::Update(_)) => 8,
            Val::Put(PutRes::Evicted(..)) => 9,
            Val::Put(PutRes::EvictedAndUpdate(..)) => 10,
            Val::Pair(a, b) => 11 + a.class().wrapping_mul(13).wrapping_add(b.class()),
            Val::List(xs) => 200u8.wrapping_add(xs.len().min(40) as u8),
            Val::Str(_) => 250,
            Val::Panic(_) => 251,
            Val::Unsupported => 252,
        }
    }
}
