//! Tracked key / value types (seams F1, F2): every Hash/Eq/Clone/Drop is a numbered user-code
//! call point and every object is followed by the ledger.
use crate::world::{self, CallKind, CANARY_DEAD, CANARY_MAGIC};
use std::borrow::Borrow;
use std::hash::{Hash, Hasher};

pub type Ident = u32;

/// borrowed form of a `TK` (lookups by `&IdQ`)
#[repr(transparent)]
pub struct IdQ(pub u32);

impl Hash for IdQ {
    fn hash<H: Hasher>(&self, state: &mut H) {
        world::user_call(CallKind::HashQ);
        state.write_u32(self.0);
    }
}
impl PartialEq for IdQ {
    fn eq(&self, other: &Self) -> bool {
        world::user_call(CallKind::EqQ);
        self.0 == other.0
    }
}
impl Eq for IdQ {}

/// tracked key: identity = `ident`
#[repr(C)]
pub struct TK {
    pub ident: IdQ,
    pub serial: u64,
    pub canary: u64,
}

impl TK {
    pub fn new(ident: Ident) -> TK {
        let serial = world::new_obj();
        TK {
            ident: IdQ(ident),
            serial,
            canary: serial ^ CANARY_MAGIC,
        }
    }
}
impl Hash for TK {
    fn hash<H: Hasher>(&self, state: &mut H) {
        world::user_call(CallKind::HashK);
        world::check_use(self.serial, self.canary, "key (in Hash)");
        state.write_u32(self.ident.0);
    }
}
impl PartialEq for TK {
    fn eq(&self, other: &Self) -> bool {
        world::user_call(CallKind::EqK);
        world::check_use(self.serial, self.canary, "key (in Eq, lhs)");
        world::check_use(other.serial, other.canary, "key (in Eq, rhs)");
        self.ident.0 == other.ident.0
    }
}
impl Eq for TK {}
impl Borrow<IdQ> for TK {
    fn borrow(&self) -> &IdQ {
        // the library borrows stored keys to compare them with the probe
        world::check_use(self.serial, self.canary, "key (in Borrow)");
        &self.ident
    }
}
impl Clone for TK {
    fn clone(&self) -> Self {
        world::user_call(CallKind::CloneK);
        world::check_use(self.serial, self.canary, "key (in Clone)");
        TK::new(self.ident.0)
    }
}
impl Drop for TK {
    fn drop(&mut self) {
        world::user_call(CallKind::DropK);
        world::drop_obj(self.serial, self.canary, "key");
        self.canary = CANARY_DEAD;
    }
}
impl std::fmt::Debug for TK {
    fn fmt(&self, f: &mut std::fmt::Formatter<'_>) -> std::fmt::Result {
        write!(f, "k{}", self.ident.0)
    }
}

/// heap-owning string key, looked up through `&str`
#[repr(C)]
pub struct SKey {
    pub serial: u64,
    pub canary: u64,
    pub s: String,
}

pub fn skey_text(ident: Ident) -> String {
    // different lengths so that the heap blocks differ in size
    let mut s = format!("key-{}", ident);
    for _ in 0..(ident % 4) {
        s.push_str("-pad");
    }
    s
}
pub fn skey_ident(s: &str) -> Ident {
    let rest = &s[4..];
    let end = rest.find('-').unwrap_or(rest.len());
    rest[..end].parse().unwrap_or(u32::MAX)
}

impl SKey {
    pub fn new(ident: Ident) -> SKey {
        let serial = world::new_obj();
        SKey {
            serial,
            canary: serial ^ CANARY_MAGIC,
            s: skey_text(ident),
        }
    }
}
impl Hash for SKey {
    fn hash<H: Hasher>(&self, state: &mut H) {
        world::user_call(CallKind::HashK);
        if world::check_use(self.serial, self.canary, "string key (in Hash)") {
            self.s.as_str().hash(state);
        }
    }
}
impl PartialEq for SKey {
    fn eq(&self, other: &Self) -> bool {
        world::user_call(CallKind::EqK);
        let a = world::check_use(self.serial, self.canary, "string key (in Eq, lhs)");
        let b = world::check_use(other.serial, other.canary, "string key (in Eq, rhs)");
        a && b && self.s == other.s
    }
}
impl Eq for SKey {}
impl Borrow<str> for SKey {
    fn borrow(&self) -> &str {
        if world::check_use(self.serial, self.canary, "string key (in Borrow)") {
            self.s.as_str()
        } else {
            ""
        }
    }
}
impl Clone for SKey {
    fn clone(&self) -> Self {
        world::user_call(CallKind::CloneK);
        if world::check_use(self.serial, self.canary, "string key (in Clone)") {
            let serial = world::new_obj();
            SKey {
                serial,
                canary: serial ^ CANARY_MAGIC,
                s: self.s.clone(),
            }
        } else {
            SKey::new(u32::MAX)
        }
    }
}
impl Drop for SKey {
    fn drop(&mut self) {
        world::user_call(CallKind::DropK);
        if !world::drop_obj(self.serial, self.canary, "string key") {
            // do not free the heap part of garbage / an already dropped key
            std::mem::forget(std::mem::take(&mut self.s));
        }
        self.canary = CANARY_DEAD;
    }
}
impl std::fmt::Debug for SKey {
    fn fmt(&self, f: &mut std::fmt::Formatter<'_>) -> std::fmt::Result {
        write!(f, "{:?}", self.s)
    }
}

/// tracked value: `val` is the unique value id of the run
#[repr(C)]
pub struct TV {
    pub val: u64,
    pub serial: u64,
    pub canary: u64,
    /// flavour `bigval`: a value larger than any size threshold a maintainer would plausibly pick
    #[cfg(feature = "bigval")]
    pub pad: [u64; 20],
}
impl TV {
    pub fn new(val: u64) -> TV {
        let serial = world::new_obj();
        TV {
            val,
            serial,
            canary: serial ^ CANARY_MAGIC,
            #[cfg(feature = "bigval")]
            pad: [serial; 20],
        }
    }
    /// the canary as the ledger sees it: under `bigval` a value whose tail was not carried along
    /// (a partial bitwise copy) reads as garbage
    #[inline]
    fn canary_seen(&self) -> u64 {
        #[cfg(feature = "bigval")]
        {
            return self.canary ^ (self.pad[19] ^ self.serial) ^ (self.pad[0] ^ self.serial).rotate_left(17);
        }
        #[allow(unreachable_code)]
        self.canary
    }
    /// read through a reference handed out by the library
    pub fn read(&self) -> u64 {
        if world::check_use(self.serial, self.canary_seen(), "value (read by caller)") {
            self.val
        } else {
            u64::MAX
        }
    }
}
impl Clone for TV {
    fn clone(&self) -> Self {
        world::user_call(CallKind::CloneV);
        world::check_use(self.serial, self.canary_seen(), "value (in Clone)");
        TV::new(self.val)
    }
}
impl Drop for TV {
    fn drop(&mut self) {
        world::user_call(CallKind::DropV);
        world::drop_obj(self.serial, self.canary_seen(), "value");
        self.canary = CANARY_DEAD;
    }
}
impl PartialEq for TV {
    fn eq(&self, other: &Self) -> bool {
        self.val == other.val
    }
}
impl std::fmt::Debug for TV {
    fn fmt(&self, f: &mut std::fmt::Formatter<'_>) -> std::fmt::Result {
        write!(f, "v{}", self.val)
    }
}

/// what the simulator needs from a key type
pub trait SimKey: Hash + Eq + Clone + std::fmt::Debug + Borrow<Self::Q> + 'static {
    type Q: Hash + Eq + ?Sized;
    const NAME: &'static str;
    fn make(ident: Ident) -> Self;
    /// ident / serial / canary without touching the ledger (harness-side inspection)
    fn raw(&self) -> (Ident, u64, u64);
    fn with_q<R>(ident: Ident, f: impl FnOnce(&Self::Q) -> R) -> R;
    /// ident of a live key handed out by the library (checks the ledger)
    fn ident_checked(&self, what: &'static str) -> Ident {
        let (i, s, c) = self.raw();
        if world::check_use(s, c, what) {
            i
        } else {
            u32::MAX
        }
    }
}

impl SimKey for TK {
    type Q = IdQ;
    const NAME: &'static str = "TK";
    fn make(ident: Ident) -> Self {
        TK::new(ident)
    }
    fn raw(&self) -> (Ident, u64, u64) {
        (self.ident.0, self.serial, self.canary)
    }
    fn with_q<R>(ident: Ident, f: impl FnOnce(&IdQ) -> R) -> R {
        let q = IdQ(ident);
        f(&q)
    }
}

impl SimKey for SKey {
    type Q = str;
    const NAME: &'static str = "SKey";
    fn make(ident: Ident) -> Self {
        SKey::new(ident)
    }
    fn raw(&self) -> (Ident, u64, u64) {
        // read serial/canary first; only parse the string when they look sane
        let (s, c) = (self.serial, self.canary);
        if c == (s ^ CANARY_MAGIC) && world::obj_state(s) == world::ObjState::Live {
            (skey_ident(&self.s), s, c)
        } else {
            (u32::MAX, s, c)
        }
    }
    fn with_q<R>(ident: Ident, f: impl FnOnce(&str) -> R) -> R {
        let s = crate::alloc::harness_scope(|| skey_text(ident));
        let r = f(s.as_str());
        crate::alloc::harness_scope(move || drop(s));
        r
    }
}
