//! Minimisation: ddmin over the event list, then per-event, configuration and environment
//! simplification, while the same (property, oracle) violation persists.
use crate::exec::Violation;
use crate::hashers::HasherSpec;
use crate::ops::Code;
use crate::runner::run_case;
use crate::trace::Trace;

pub struct Shrunk {
    pub trace: Trace,
    pub violation: Violation,
    pub tests: u64,
}

fn still_fails(t: &Trace, prop: &str, oracle: &str, tests: &mut u64) -> Option<(Violation, Trace)> {
    *tests += 1;
    let r = run_case(t);
    for (v, tr) in r.violations {
        if v.prop == prop && v.oracle == oracle {
            return Some((v, tr));
        }
    }
    // fault-injecting traces: removing events renumbers the user-code calls, so re-search the
    // injection point for the candidate history
    if !t.faults.is_empty() && *tests < 3000 {
        let mut probe = t.clone();
        probe.faults.clear();
        probe.prop = "C18".into();
        let r = run_case(&probe);
        *tests += r.executions;
        for (v, tr) in r.violations {
            if v.prop == prop && v.oracle == oracle {
                return Some((v, tr));
            }
        }
    }
    None
}

pub fn shrink(t0: &Trace, v0: &Violation, budget: u64) -> Shrunk {
    let (prop, oracle) = (v0.prop.clone(), v0.oracle.clone());
    let mut tests = 0u64;
    let mut best = t0.clone();
    let mut bestv = v0.clone();
    // the trace that actually failed may be the env-B variant or a fault variant: start from it
    // bounded by candidate count and by wall-clock (a large-configuration candidate takes seconds)
    let started = std::time::Instant::now();
    let accept = |cand: &Trace, best: &mut Trace, bestv: &mut Violation, tests: &mut u64| -> bool {
        if *tests >= budget || started.elapsed().as_secs() >= 25 {
            return false;
        }
        crate::sup::heartbeat();
        match still_fails(cand, &prop, &oracle, tests) {
            Some((v, tr)) => {
                *best = tr;
                *bestv = v;
                true
            }
            None => false,
        }
    };
    // 0. cut everything after the failing step
    if bestv.step >= 0 && (bestv.step as usize) + 1 < best.events.len() {
        let mut c = best.clone();
        c.events.truncate(bestv.step as usize + 1);
        accept(&c, &mut best, &mut bestv, &mut tests);
    }
    // 1. ddmin over events
    let mut chunk = (best.events.len() / 2).max(1);
    while chunk >= 1 && tests < budget {
        let mut i = 0;
        let mut progressed = false;
        while i < best.events.len() && tests < budget {
            let mut c = best.clone();
            let end = (i + chunk).min(c.events.len());
            c.events.drain(i..end);
            if accept(&c, &mut best, &mut bestv, &mut tests) {
                progressed = true;
            } else {
                i += chunk;
            }
        }
        if chunk == 1 && !progressed {
            break;
        }
        chunk = if chunk > 1 { chunk / 2 } else { 1 };
        if chunk == 1 && !progressed && best.events.len() <= 1 {
            break;
        }
    }
    // 2. per-event simplification
    for i in 0..best.events.len() {
        if tests >= budget {
            break;
        }
        let e = best.events[i].clone();
        // simpler operation
        let simpler = match e.op.code {
            Code::GetMut => Some(Code::Get),
            Code::PeekMut => Some(Code::Peek),
            Code::PeekMutOrPut => Some(Code::PeekOrPut),
            Code::GetLruMut => Some(Code::GetLru),
            _ => None,
        };
        if let Some(code) = simpler {
            let mut c = best.clone();
            c.events[i].op.code = code;
            c.events[i].op.w = 0;
            accept(&c, &mut best, &mut bestv, &mut tests);
        }
        if best.events.get(i).map(|e| e.op.owned).unwrap_or(false) {
            let mut c = best.clone();
            c.events[i].op.owned = false;
            accept(&c, &mut best, &mut bestv, &mut tests);
        }
        if best.events.get(i).map(|e| e.op.w != 0).unwrap_or(false) {
            let mut c = best.clone();
            c.events[i].op.w = 0;
            accept(&c, &mut best, &mut bestv, &mut tests);
        }
        if best.events.get(i).map(|e| e.observer).unwrap_or(false) {
            let mut c = best.clone();
            c.events[i].observer = false;
            accept(&c, &mut best, &mut bestv, &mut tests);
        }
        // shorter macro event
        while best.events.get(i).map(|e| e.op.code == Code::Fill && e.op.n > 1).unwrap_or(false) {
            let mut c = best.clone();
            c.events[i].op.n /= 2;
            if !accept(&c, &mut best, &mut bestv, &mut tests) {
                break;
            }
        }
        // smaller key
        let k = best.events.get(i).map(|e| e.op.k).unwrap_or(0);
        if k > 1 {
            for nk in 1..k.min(4) {
                let mut c = best.clone();
                c.events[i].op.k = nk;
                if accept(&c, &mut best, &mut bestv, &mut tests) {
                    break;
                }
            }
        }
    }
    // 3. environment simplification
    if best.probe_all {
        let mut c = best.clone();
        c.probe_all = false;
        accept(&c, &mut best, &mut bestv, &mut tests);
    }
    if best.env_b.is_some() {
        let mut c = best.clone();
        c.env_b = None;
        accept(&c, &mut best, &mut bestv, &mut tests);
    }
    for i in 0..best.header.hashers.len() {
        if best.header.hashers[i] != HasherSpec::IDENTITY {
            let mut c = best.clone();
            c.header.hashers[i] = HasherSpec::IDENTITY;
            accept(&c, &mut best, &mut bestv, &mut tests);
        }
    }
    if best.alloc.pad_seed != 0 {
        let mut c = best.clone();
        c.alloc.pad_seed = 0;
        accept(&c, &mut best, &mut bestv, &mut tests);
    }
    if best.header.key_type != "TK" {
        let mut c = best.clone();
        c.header.key_type = "TK".into();
        accept(&c, &mut best, &mut bestv, &mut tests);
    }
    if best.header.random_state {
        let mut c = best.clone();
        c.header.random_state = false;
        if c.header.kind == crate::alpha::Kind::Slru || c.header.kind == crate::alpha::Kind::Arc {
            c.header.ctor = c.header.ctor.min(1);
        }
        if c.header.kind == crate::alpha::Kind::TwoQ {
            c.header.ctor = 0;
        }
        if c.header.kind != crate::alpha::Kind::Wtlfu || c.header.ctor == 0 {
            accept(&c, &mut best, &mut bestv, &mut tests);
        }
    }
    // 4. configuration simplification: smaller capacities
    for i in 0..best.header.sizes.len().min(3) {
        while best.header.sizes[i] > 16 && tests < budget {
            let mut c = best.clone();
            c.header.sizes[i] /= 2;
            if !accept(&c, &mut best, &mut bestv, &mut tests) {
                break;
            }
        }
        while best.header.sizes[i] > 1 && tests < budget {
            let mut c = best.clone();
            c.header.sizes[i] -= 1;
            if !accept(&c, &mut best, &mut bestv, &mut tests) {
                break;
            }
        }
    }
    // 5. one more pass of single-event removal after simplification
    let mut i = 0;
    while i < best.events.len() && tests < budget {
        let mut c = best.clone();
        c.events.remove(i);
        if !accept(&c, &mut best, &mut bestv, &mut tests) {
            i += 1;
        }
    }
    Shrunk {
        trace: best,
        violation: bestv,
        tests,
    }
}
