//! Abstraction function α: the observed abstract state of a subject, read through the hooks
//! (never through hashing or the public iterators), together with the structural audit (C03).
use crate::keys::{SimKey, TV};
use crate::world;
use caches::verif::{ListAudit, TinyLFUState};
use caches::RawLRU;

#[derive(Clone, Copy, Debug, PartialEq, Eq, PartialOrd, Ord, Hash)]
pub enum Kind {
    Lru,
    Slru,
    TwoQ,
    Arc,
    Wtlfu,
    Tlfu,
    Sampled,
}
impl Kind {
    pub fn name(self) -> &'static str {
        match self {
            Kind::Lru => "RawLRU",
            Kind::Slru => "SegmentedCache",
            Kind::TwoQ => "TwoQueueCache",
            Kind::Arc => "AdaptiveCache",
            Kind::Wtlfu => "WTinyLFUCache",
            Kind::Tlfu => "TinyLFU",
            Kind::Sampled => "SampledLFU",
        }
    }
    pub fn parse(s: &str) -> Option<Kind> {
        Some(match s {
            "RawLRU" => Kind::Lru,
            "SegmentedCache" => Kind::Slru,
            "TwoQueueCache" => Kind::TwoQ,
            "AdaptiveCache" => Kind::Arc,
            "WTinyLFUCache" => Kind::Wtlfu,
            "TinyLFU" => Kind::Tlfu,
            "SampledLFU" => Kind::Sampled,
            _ => return None,
        })
    }
    /// number of resident lists (the rest are ghost lists)
    pub fn resident_lists(self) -> usize {
        match self {
            Kind::Lru => 1,
            Kind::Slru => 2,
            Kind::TwoQ => 2,
            Kind::Arc => 2,
            Kind::Wtlfu => 3,
            _ => 0,
        }
    }
    pub fn n_lists(self) -> usize {
        match self {
            Kind::Lru => 1,
            Kind::Slru => 2,
            Kind::TwoQ => 3,
            Kind::Arc => 4,
            Kind::Wtlfu => 3,
            _ => 0,
        }
    }
    pub fn list_name(self, i: usize) -> &'static str {
        match (self, i) {
            (Kind::Lru, _) => "list",
            (Kind::Slru, 0) => "probationary",
            (Kind::Slru, _) => "protected",
            (Kind::TwoQ, 0) => "recent",
            (Kind::TwoQ, 1) => "frequent",
            (Kind::TwoQ, _) => "ghost",
            (Kind::Arc, 0) => "recent",
            (Kind::Arc, 1) => "frequent",
            (Kind::Arc, 2) => "recent_evict",
            (Kind::Arc, _) => "frequent_evict",
            (Kind::Wtlfu, 0) => "window",
            (Kind::Wtlfu, 1) => "probationary",
            (Kind::Wtlfu, _) => "protected",
            _ => "-",
        }
    }
}

#[derive(Clone, Debug, PartialEq, Eq)]
pub struct Ent {
    pub ident: u32,
    pub val: u64,
    pub kser: u64,
    pub vser: u64,
    pub addr: usize,
}

#[derive(Clone, Debug, Default)]
pub struct ListSnap {
    pub cap: usize,
    pub map_len: usize,
    /// MRU -> LRU
    pub ents: Vec<Ent>,
    /// structural problems found by the audit (C03)
    pub problems: Vec<String>,
    pub head: usize,
    pub tail: usize,
    /// the hash index claims entries it cannot find (interrupted in-place rehash): the table must
    /// not be traversed any more (neither by the audit nor by the library's Drop)
    pub corrupt: bool,
}

impl ListSnap {
    pub fn kv(&self) -> Vec<(u32, u64)> {
        self.ents.iter().map(|e| (e.ident, e.val)).collect()
    }
    pub fn find(&self, ident: u32) -> Option<&Ent> {
        self.ents.iter().find(|e| e.ident == ident)
    }
    pub fn pos(&self, ident: u32) -> Option<usize> {
        self.ents.iter().position(|e| e.ident == ident)
    }
}

#[derive(Clone, Debug)]
pub struct Alpha {
    pub kind: Kind,
    /// LRU: [cap]; SLRU: [cp, cq]; 2Q: [size, recent quota, ghost cap]; ARC: [size, p];
    /// WTLFU: [cw, cp, cq]
    pub scalars: Vec<i64>,
    pub lists: Vec<ListSnap>,
    pub est: Option<TinyLFUState>,
    pub sampled: Option<caches::verif::SampledLFUState>,
    /// public observations that call no user code
    pub pub_len: usize,
    pub pub_cap: usize,
    pub pub_is_empty: bool,
}

impl Alpha {
    /// abstract part only (what the policy models talk about)
    pub fn abs_eq(&self, other: &Alpha) -> bool {
        self.scalars == other.scalars
            && self.lists.len() == other.lists.len()
            && self
                .lists
                .iter()
                .zip(other.lists.iter())
                .all(|(a, b)| a.cap == b.cap && a.kv() == b.kv())
            && self.est == other.est
            && self.sampled == other.sampled
            && self.pub_len == other.pub_len
            && self.pub_cap == other.pub_cap
            && self.pub_is_empty == other.pub_is_empty
    }
    /// abstract + physical identity (node addresses): read-only operations must not even
    /// re-link or re-allocate nodes
    pub fn phys_eq(&self, other: &Alpha) -> bool {
        self.abs_eq(other)
            && self
                .lists
                .iter()
                .zip(other.lists.iter())
                .all(|(a, b)| a.ents == b.ents)
    }
    pub fn corrupt(&self) -> bool {
        self.lists.iter().any(|l| l.corrupt)
    }
    pub fn resident(&self, ident: u32) -> Option<(usize, &Ent)> {
        for (i, l) in self.lists.iter().enumerate().take(self.kind.resident_lists()) {
            if let Some(e) = l.find(ident) {
                return Some((i, e));
            }
        }
        None
    }
    pub fn retained(&self, ident: u32) -> Option<(usize, &Ent)> {
        for (i, l) in self.lists.iter().enumerate() {
            if let Some(e) = l.find(ident) {
                return Some((i, e));
            }
        }
        None
    }
    pub fn resident_count(&self) -> usize {
        self.lists
            .iter()
            .take(self.kind.resident_lists())
            .map(|l| l.ents.len())
            .sum()
    }
    pub fn all_serials(&self) -> Vec<u64> {
        let mut v = Vec::new();
        for l in &self.lists {
            for e in &l.ents {
                v.push(e.kser);
                v.push(e.vser);
            }
        }
        v
    }
    pub fn problems(&self) -> Vec<String> {
        let mut v = Vec::new();
        for (i, l) in self.lists.iter().enumerate() {
            for p in &l.problems {
                v.push(format!("{}: {}", self.kind.list_name(i), p));
            }
        }
        v
    }
    pub fn show(&self) -> String {
        let mut s = format!("{} {:?}", self.kind.name(), self.scalars);
        for (i, l) in self.lists.iter().enumerate() {
            s.push_str(&format!(
                " {}[cap {}]=[{}]",
                self.kind.list_name(i),
                l.cap,
                {
                    // long lists: both ends and the length
                    let f = |e: &Ent| format!("k{}:v{}", e.ident, e.val);
                    if l.ents.len() > 24 {
                        let n = l.ents.len();
                        format!(
                            "{},..({} more)..,{}",
                            l.ents[..8].iter().map(f).collect::<Vec<_>>().join(","),
                            n - 16,
                            l.ents[n - 8..].iter().map(f).collect::<Vec<_>>().join(",")
                        )
                    } else {
                        l.ents.iter().map(f).collect::<Vec<_>>().join(",")
                    }
                }
            ));
        }
        if let Some(e) = &self.est {
            s.push_str(&format!(" est(w={}/{})", e.w, e.samples));
        }
        s
    }
    /// hash of the abstract state with key idents and value ids canonicalised by first
    /// appearance (so that states differing only by renaming count once)
    pub fn shape_hash(&self) -> u64 {
        let mut h = crate::rng::fnv64(self.kind.name());
        for s in &self.scalars {
            h = crate::rng::mix(h, *s as u64);
        }
        let mut names: Vec<u32> = Vec::new();
        for l in &self.lists {
            h = crate::rng::mix(h, 0xF00D ^ l.cap as u64);
            for e in &l.ents {
                let id = match names.iter().position(|x| *x == e.ident) {
                    Some(p) => p,
                    None => {
                        names.push(e.ident);
                        names.len() - 1
                    }
                };
                h = crate::rng::mix(h, id as u64);
            }
        }
        h
    }
}

/// Read one inner list through the audit hook. `relaxed` = after an injected fault: only the
/// memory-safety subset is required (reachable nodes live, their K/V live objects).
pub fn snap_list<K: SimKey, E: caches::OnEvictCallback, S: std::hash::BuildHasher>(l: &RawLRU<K, TV, E, S>, relaxed: bool) -> ListSnap {
    let mut ents: Vec<Ent> = Vec::new();
    let mut problems: Vec<String> = Vec::new();
    let mut visit = |addr: usize, k: &K, v: &TV| {
        let (ident, kser, kcan) = k.raw();
        let kok = kcan == (kser ^ world::CANARY_MAGIC) && world::obj_state(kser) == world::ObjState::Live;
        let vok = v.canary == (v.serial ^ world::CANARY_MAGIC)
            && world::obj_state(v.serial) == world::ObjState::Live;
        if !kok {
            problems.push(format!(
                "node {:#x} holds a key that is not a live object (serial field {:#x})",
                addr, kser
            ));
        }
        if !vok {
            problems.push(format!(
                "node {:#x} holds a value that is not a live object (serial field {:#x})",
                addr, v.serial
            ));
        }
        ents.push(Ent {
            ident: if kok { ident } else { u32::MAX },
            val: if vok { v.val } else { u64::MAX },
            kser,
            vser: v.serial,
            addr,
        });
    };
    let mut is_live = |a: usize, sz: usize| crate::alloc::is_live(a, sz);
    if relaxed && (world::index_probe() || world::contain()) {
        // The panic was injected while the index was rehashing its entries (no list operation is in
        // flight then). Look every linked node up instead of traversing the table: an index that
        // claims more entries than can be found has lost its own count, and traversing it (as the
        // audit below, `Drop` and every later growth of the table do) reads beyond the table.
        let bound = caches::Cache::len(l).saturating_add(4);
        let (claimed, found) = world::suspended(|| l.verif_index_probe(bound, &mut is_live));
        if claimed > found && !world::index_probe() {
            // Not an injection point of the rehash class (e.g. the second fault of a double-fault
            // plan, whose call number no base execution classifies): an index entry without a linked
            // node is a legitimate post-fault state (an orphan), but the table might just as well
            // have lost its count. Nothing is reported; the table is not traversed and the object
            // is set aside (leaked), so that the simulator never executes undefined behaviour.
            return ListSnap {
                cap: caches::Cache::cap(l),
                map_len: claimed,
                ents: Vec::new(),
                problems: Vec::new(),
                head: 0,
                tail: 0,
                corrupt: true,
            };
        }
        if claimed > found {
            return ListSnap {
                cap: caches::Cache::cap(l),
                map_len: claimed,
                ents: Vec::new(),
                problems: vec![format!(
                    "the index claims {} entries but only {} of the linked nodes can be found through it: the interrupted rehash left the table's count wrong, any traversal of it (Drop, growth) would read beyond the table",
                    claimed, found
                )],
                head: 0,
                tail: 0,
                corrupt: true,
            };
        }
    }
    // a well-formed chain closes after len() nodes: a small slack is enough to tell a cycle or a
    // run-away chain from a closed one (and keeps the audit O(len) on corrupted lists)
    let bound = caches::Cache::len(l).saturating_add(4);
    let rep: ListAudit = l.verif_audit(bound, &mut is_live, &mut visit);
    // structural verdict
    if let Some(d) = rep.dead_node {
        problems.push(format!(
            "walk reached {:#x}, which is not a live allocation of node size {} (freed or foreign node reachable)",
            d, rep.node_size
        ));
    }
    let mut fwd_sorted = rep.forward.clone();
    fwd_sorted.sort_unstable();
    let in_forward = |a: usize| fwd_sorted.binary_search(&a).is_ok();
    if !relaxed {
        if !rep.forward_closed {
            problems.push("forward walk from the head sentinel does not reach the tail sentinel".into());
        }
        if !rep.backward_closed {
            problems.push("backward walk from the tail sentinel does not reach the head sentinel".into());
        }
        let mut rev = rep.backward.clone();
        rev.reverse();
        if rep.forward_closed && rep.backward_closed && rev != rep.forward {
            problems.push(format!(
                "prev links are not the reverse of next links ({} forward nodes, {} backward nodes)",
                rep.forward.len(),
                rep.backward.len()
            ));
        }
        let mut sorted = rep.forward.clone();
        sorted.sort_unstable();
        sorted.dedup();
        if sorted.len() != rep.forward.len() {
            problems.push("a node is linked twice".into());
        }
        if rep.index.len() != rep.forward.len() || rep.map_len != rep.forward.len() {
            problems.push(format!(
                "index has {} entries (len() {}) but the chain has {} nodes",
                rep.index.len(),
                rep.map_len,
                rep.forward.len()
            ));
        }
        let mut idx_nodes: Vec<usize> = rep.index.iter().map(|x| x.1).collect();
        idx_nodes.sort_unstable();
        idx_nodes.dedup();
        if idx_nodes.len() != rep.index.len() {
            problems.push("two index entries point at the same node".into());
        }
        for (kp, np) in &rep.index {
            if !in_forward(*np) {
                problems.push(format!("index entry points at node {:#x} which is not in the chain", np));
            }
            if *kp != *np + rep.key_offset {
                problems.push(format!(
                    "index key pointer {:#x} is not the key of its own node {:#x}",
                    kp, np
                ));
            }
        }
    } else {
        // after a fault: every node reachable through the index must still be a live node
        for (kp, np) in &rep.index {
            if !crate::alloc::is_live(*np, rep.node_size) {
                problems.push(format!("index entry points at {:#x}, not a live node", np));
                continue;
            }
            if *kp != *np + rep.key_offset {
                // the key pointer must at least point into a live node
                let owner = kp.wrapping_sub(rep.key_offset);
                if !crate::alloc::is_live(owner, rep.node_size) {
                    problems.push(format!("index key pointer {:#x} points into a dead node", kp));
                    continue;
                }
            }
            if !in_forward(*np) {
                let (k, v) = unsafe { l.verif_node_kv(*np) };
                let (_, kser, kcan) = k.raw();
                if kcan != (kser ^ world::CANARY_MAGIC) || world::obj_state(kser) != world::ObjState::Live {
                    problems.push(format!("indexed orphan node {:#x} holds a dead key", np));
                }
                if v.canary != (v.serial ^ world::CANARY_MAGIC)
                    || world::obj_state(v.serial) != world::ObjState::Live
                {
                    problems.push(format!("indexed orphan node {:#x} holds a dead value", np));
                }
            }
        }
        for a in &rep.backward {
            if !in_forward(*a) && crate::alloc::is_live(*a, rep.node_size) {
                let (k, v) = unsafe { l.verif_node_kv(*a) };
                let (_, kser, kcan) = k.raw();
                if kcan != (kser ^ world::CANARY_MAGIC) || world::obj_state(kser) != world::ObjState::Live {
                    problems.push(format!("node {:#x} (reachable backwards only) holds a dead key", a));
                }
                if v.canary != (v.serial ^ world::CANARY_MAGIC)
                    || world::obj_state(v.serial) != world::ObjState::Live
                {
                    problems.push(format!("node {:#x} (reachable backwards only) holds a dead value", a));
                }
            }
        }
    }
    ListSnap {
        cap: rep.cap,
        map_len: rep.map_len,
        ents,
        problems,
        head: rep.head,
        tail: rep.tail,
        corrupt: false,
    }
}
