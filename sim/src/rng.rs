//! One integer decides everything: splitmix64 + xoshiro256** streams derived by label.

#[inline]
pub fn splitmix64(x: &mut u64) -> u64 {
    *x = x.wrapping_add(0x9E37_79B9_7F4A_7C15);
    let mut z = *x;
    z = (z ^ (z >> 30)).wrapping_mul(0xBF58_476D_1CE4_E5B9);
    z = (z ^ (z >> 27)).wrapping_mul(0x94D0_49BB_1331_11EB);
    z ^ (z >> 31)
}

pub fn fnv64(s: &str) -> u64 {
    let mut h: u64 = 0xcbf2_9ce4_8422_2325;
    for b in s.as_bytes() {
        h ^= *b as u64;
        h = h.wrapping_mul(0x0000_0100_0000_01B3);
    }
    h
}

pub fn mix(a: u64, b: u64) -> u64 {
    let mut x = a ^ b.rotate_left(32) ^ 0xD6E8_FEB8_6659_FD93;
    splitmix64(&mut x)
}

/// seed of one run: function of (VERIF_SEED, property id, run index) only.
pub fn run_seed(verif_seed: u64, prop: &str, run_index: u64) -> u64 {
    let mut x = verif_seed ^ fnv64(prop) ^ run_index.wrapping_mul(0x9E37_79B9_7F4A_7C15);
    splitmix64(&mut x)
}

#[derive(Clone, Debug)]
pub struct Rng {
    s: [u64; 4],
}

impl Rng {
    pub fn new(seed: u64) -> Self {
        let mut x = seed;
        let s = [
            splitmix64(&mut x),
            splitmix64(&mut x),
            splitmix64(&mut x),
            splitmix64(&mut x),
        ];
        Rng { s }
    }

    /// independent stream by label
    pub fn stream(seed: u64, label: &str) -> Self {
        Rng::new(mix(seed, fnv64(label)))
    }

    #[inline]
    pub fn next_u64(&mut self) -> u64 {
        let r = self.s[1].wrapping_mul(5).rotate_left(7).wrapping_mul(9);
        let t = self.s[1] << 17;
        self.s[2] ^= self.s[0];
        self.s[3] ^= self.s[1];
        self.s[1] ^= self.s[2];
        self.s[0] ^= self.s[3];
        self.s[2] ^= t;
        self.s[3] = self.s[3].rotate_left(45);
        r
    }

    /// uniform in 0..n (n>0)
    #[inline]
    pub fn below(&mut self, n: u64) -> u64 {
        debug_assert!(n > 0);
        // multiply-shift; bias is irrelevant here
        (((self.next_u64() >> 32) * n) >> 32).min(n - 1)
    }

    #[inline]
    pub fn range(&mut self, lo: u64, hi_incl: u64) -> u64 {
        lo + self.below(hi_incl - lo + 1)
    }

    #[inline]
    pub fn chance(&mut self, num: u64, den: u64) -> bool {
        self.below(den) < num
    }

    pub fn pick<'a, T>(&mut self, xs: &'a [T]) -> &'a T {
        &xs[self.below(xs.len() as u64) as usize]
    }

    /// index drawn proportionally to weights
    pub fn weighted(&mut self, w: &[u32]) -> usize {
        let total: u64 = w.iter().map(|x| *x as u64).sum();
        let mut r = self.below(total.max(1));
        for (i, x) in w.iter().enumerate() {
            if r < *x as u64 {
                return i;
            }
            r -= *x as u64;
        }
        w.len() - 1
    }
}
