//! One "case" = one generated trace with everything the property's campaign does around it:
//! the base execution, the differential second execution (environment pair / lookup form /
//! observer twin), and for C18 the enumeration of fault injection points.
use crate::exec::{execute, ExecResult, Opts, Stats, StepLog, Violation};
use crate::ops::Code;
use crate::rng::Rng;
use crate::trace::Trace;

pub struct CaseResult {
    /// each violation with the exact trace that reproduces it
    pub violations: Vec<(Violation, Trace)>,
    pub executions: u64,
    pub events: u64,
    pub stats: Stats,
    pub log_hash: u64,
    pub harness_error: Option<String>,
}

pub fn apply_env_b(t: &Trace) -> Trace {
    let mut tb = t.clone();
    if let Some(b) = &t.env_b {
        if b.hashers.len() == tb.header.hashers.len() {
            tb.header.hashers = b.hashers.clone();
        }
        tb.alloc = b.alloc;
        if let Some(c) = b.rs_ctor {
            tb.header.random_state = true;
            tb.header.ctor = c;
        }
        if b.strip_rehash {
            tb.events.retain(|e| e.op.code != Code::Rehash);
        }
        if b.strip_observers {
            tb.events.retain(|e| !e.observer);
        }
        if b.flip_owned {
            for e in tb.events.iter_mut() {
                e.op.owned = !e.op.owned;
            }
        }
    }
    tb.env_b = None;
    tb
}

/// compare the logs of two executions of "the same" history (B = A with some events stripped)
fn diff_logs(t: &Trace, a: &[StepLog], b: &[StepLog]) -> Option<(usize, String)> {
    let eb = t.env_b.as_ref()?;
    // index in B's event list -> index in A's event list
    let mut b2a: Vec<usize> = Vec::new();
    for (i, ev) in t.events.iter().enumerate() {
        let skipped = (eb.strip_rehash && ev.op.code == Code::Rehash) || (eb.strip_observers && ev.observer);
        if !skipped {
            b2a.push(i);
        }
    }
    let mut amap: std::collections::BTreeMap<usize, &StepLog> = std::collections::BTreeMap::new();
    for l in a {
        amap.insert(l.idx, l);
    }
    for lb in b {
        let ai = match b2a.get(lb.idx) {
            Some(x) => *x,
            None => continue,
        };
        let la = match amap.get(&ai) {
            Some(l) => *l,
            None => continue, // A stopped earlier
        };
        let ev = &t.events[ai];
        if la.val != lb.val {
            return Some((
                ai,
                format!(
                    "event #{} {} returned {} in execution A but {} in execution B",
                    ai,
                    ev.op.show(),
                    la.val.show(),
                    lb.val.show()
                ),
            ));
        }
        if la.cb != lb.cb {
            return Some((
                ai,
                format!(
                    "event #{} {} invoked the eviction callback with {:?} in execution A but {:?} in execution B (order included)",
                    ai,
                    ev.op.show(),
                    la.cb,
                    lb.cb
                ),
            ));
        }
        if la.post != lb.post {
            return Some((
                ai,
                format!(
                    "after event #{} {} the state is {} in execution A but {} in execution B",
                    ai,
                    ev.op.show(),
                    la.post.as_ref().map(|p| p.show()).unwrap_or_default(),
                    lb.post.as_ref().map(|p| p.show()).unwrap_or_default()
                ),
            ));
        }
    }
    None
}

/// suffix of the oracle name of every C18 violation whose injected panic fell inside an in-place
/// rehash of a hash index (see known_findings.json, F1)
pub const REHASH_TAG: &str = "@hash_panic_in_index_rehash";

/// Call numbers (1-based) that lie inside a rehash of a hash index: a run of hasher-only calls
/// (build_hasher, Hash of a stored key, finish) that hashes at least four stored keys in a row.
/// An ordinary operation hashes the probe key, then compares or drops something.
/// Only rehashes that an insertion starts by itself count (put-like, get-like and macro events):
/// the forced re-hash event, `resize` and `clone` rebuild the table by another path.
pub fn rehash_points(t: &Trace, kinds: &[(u8, u32)]) -> Vec<u64> {
    use crate::ops::Code;
    let is_h = |k: u8| matches!(k, 0 | 8 | 9 | 10);
    let counts = |e: u32| -> bool {
        match t.events.get(e as usize) {
            Some(ev) => !matches!(ev.op.code, Code::Rehash | Code::Resize | Code::Fork | Code::DropTwin | Code::Purge),
            None => false,
        }
    };
    let mut out = Vec::new();
    let mut i = 0;
    while i < kinds.len() {
        if !is_h(kinds[i].0) {
            i += 1;
            continue;
        }
        let s = i;
        let mut hk = 0;
        while i < kinds.len() && is_h(kinds[i].0) && kinds[i].1 == kinds[s].1 {
            if kinds[i].0 == 0 {
                hk += 1;
            }
            i += 1;
        }
        if hk >= 4 && counts(kinds[s].1) {
            out.extend((s..i).map(|j| j as u64 + 1));
        }
    }
    out
}

/// does the (first) injection point of this fault-carrying trace fall inside an index rehash?
pub fn fault_in_rehash(t: &Trace) -> bool {
    let f = match t.faults.first() {
        Some(f) => *f,
        None => return false,
    };
    if !t.events.iter().any(|e| e.op.code == crate::ops::Code::Fill) {
        return false;
    }
    let mut c = t.clone();
    c.faults.clear();
    c.env_b = None;
    c.prop = "C18".into();
    let r = execute(
        &c,
        Opts {
            oracles: false,
            keep_log: false,
            collect_distinct: false,
            lean: true,
        },
    );
    rehash_points(&c, &r.kind_log).binary_search(&f).is_ok()
}

/// injection points of a long history outside its first (macro) event: the ordinary events that
/// follow it (up to 300 calls, evenly spaced) and the final drop (up to 60)
fn tail_points(kinds: &[(u8, u32)]) -> Vec<u64> {
    let after: Vec<u64> = kinds.iter().enumerate().filter(|(_, k)| k.1 != 0 && k.1 != u32::MAX).map(|(i, _)| i as u64 + 1).collect();
    let drop: Vec<u64> = kinds.iter().enumerate().filter(|(i, k)| k.1 == u32::MAX && *i > kinds.len() / 2).map(|(i, _)| i as u64 + 1).collect();
    let mut v: Vec<u64> = after.iter().step_by((after.len() / 300).max(1)).copied().collect();
    v.extend(drop.iter().step_by((drop.len() / 60).max(1)).copied());
    v
}

fn tag_rehash(out: &mut CaseResult, from: usize) {
    for (v, _) in out.violations.iter_mut().skip(from) {
        if v.prop == "C18" && !v.oracle.ends_with(REHASH_TAG) {
            v.oracle = format!("{}{}", v.oracle, REHASH_TAG);
        }
    }
}

fn absorb(out: &mut CaseResult, r: &ExecResult, t: &Trace) {
    out.executions += 1;
    out.events += r.stats.counters.get("events").copied().unwrap_or(0);
    out.stats.merge(&r.stats);
    out.log_hash = crate::rng::mix(out.log_hash, r.log_hash);
    for v in &r.violations {
        out.violations.push((v.clone(), t.clone()));
    }
    if let Some(e) = &r.harness_error {
        out.harness_error = Some(e.clone());
    }
    out.stats.add("user_calls", r.calls);
    for (i, n) in r.kind_counts.iter().enumerate() {
        if *n > 0 {
            out.stats.add(&format!("calls:{}", crate::world::CALL_KIND_NAMES[i]), *n);
        }
    }
}

pub fn run_case(t: &Trace) -> CaseResult {
    let mut out = CaseResult {
        violations: Vec::new(),
        executions: 0,
        events: 0,
        stats: Stats::default(),
        log_hash: 0,
        harness_error: None,
    };
    let explicit_faults = !t.faults.is_empty();
    let keep = t.env_b.is_some();
    // replayed fault traces: is the injection point inside an index rehash? (decides the containment
    // probe and the class of what is found)
    let replay_in_rehash = explicit_faults && fault_in_rehash(t);
    crate::world::set_index_probe(replay_in_rehash);
    let base = execute(
        t,
        Opts {
            oracles: true,
            keep_log: keep,
            collect_distinct: true,
            lean: crate::exec::lean_mode(),
        },
    );
    absorb(&mut out, &base, t);
    if explicit_faults {
        count_fault(&mut out, &base);
        crate::world::set_index_probe(false);
        if replay_in_rehash {
            tag_rehash(&mut out, 0);
        }
        return out;
    }
    // differential second execution
    if let Some(eb) = &t.env_b {
        if base.constructed {
            let tb = apply_env_b(t);
            let rb = execute(
                &tb,
                Opts {
                    oracles: true,
                    keep_log: true,
                    collect_distinct: false,
                    lean: crate::exec::lean_mode(),
                },
            );
            absorb(&mut out, &rb, &tb);
            out.stats.bump("differential_pairs");
            {
                if let Some((step, d)) = diff_logs(t, &base.log, &rb.log) {
                    let (prop, oracle) = if eb.strip_observers {
                        ("C13", "twin_run_differs")
                    } else if eb.flip_owned && eb.hashers == t.header.hashers {
                        ("C02", "borrowed_form_differs")
                    } else {
                        ("C17", "environment_dependence")
                    };
                    out.violations.push((
                        Violation {
                            prop: prop.into(),
                            oracle: oracle.into(),
                            step: step as i64,
                            op: t.events.get(step).map(|e| e.op.code.name()).unwrap_or("?").into(),
                            detail: d,
                        },
                        t.clone(),
                    ));
                }
            }
        }
    }
    // Runs through constructors that hard-wire RandomState *and* whose results depend on the hash
    // values (key digests of the estimator / cost tracker, hash-table order of fill_sample) are the
    // one part of the search the simulator does not own (DESIGN 3.6): their outcome logs are not
    // part of the determinism claim, and a violation found there is only reported if it replays.
    let partly_uncontrolled = t.header.kind == crate::alpha::Kind::Sampled && t.header.ctor != 0;
    if (t.header.random_state
        && matches!(
            t.header.kind,
            crate::alpha::Kind::Wtlfu | crate::alpha::Kind::Tlfu | crate::alpha::Kind::Sampled
        ))
        || partly_uncontrolled
    {
        out.log_hash = crate::rng::mix(0xD1CE, t.run_index);
        out.stats.bump("uncontrolled_hash_dependent_runs");
    }
    // C18: enumerate the injection points of this history
    if t.prop == "C18" && base.violations.is_empty() {
        let n = base.calls;
        let mut rs = Rng::stream(crate::rng::run_seed(t.seed, "C18", t.run_index), "faults");
        // long histories (macro events): the calls made while a hash index rehashes its stored keys
        // are few and special, so they are all candidates; the rest is sampled
        let bursts = rehash_points(t, &base.kind_log);
        let points: Vec<u64> = if n <= 400 {
            (1..=n).collect()
        } else if !bursts.is_empty() {
            let step = (bursts.len() / 160).max(1);
            let mut v: Vec<u64> = bursts.iter().step_by(step).copied().collect();
            v.extend((0..120).map(|_| rs.range(1, n)));
            v.extend(tail_points(&base.kind_log));
            v.sort_unstable();
            v.dedup();
            out.stats.bump("c18_histories_with_index_rehash");
            v
        } else if !base.kind_log.is_empty() {
            // a long history without an index rehash: the calls of the ordinary events after the
            // macro event and of the final drop, plus a sample of the macro event's own
            let mut v: Vec<u64> = (0..200).map(|_| rs.range(1, n)).collect();
            v.extend(tail_points(&base.kind_log));
            v.sort_unstable();
            v.dedup();
            v
        } else {
            let mut v: Vec<u64> = (0..400).map(|_| rs.range(1, n)).collect();
            v.sort_unstable();
            v.dedup();
            v
        };
        let double = rs.chance(1, 10);
        let mut tagged = 0usize;
        for i in points {
            let in_rehash = bursts.binary_search(&i).is_ok();
            if in_rehash && tagged >= 2 {
                // (two instances per history are enough; they must not use up the violation budget)
                continue;
            }
            crate::sup::note_fault(i);
            let mut tf = t.clone();
            tf.faults = vec![i];
            if double {
                tf.faults.push(i + rs.range(1, 40));
            }
            tf.env_b = None;
            crate::world::set_index_probe(in_rehash);
            let r = execute(
                &tf,
                Opts {
                    oracles: true,
                    keep_log: false,
                    collect_distinct: false,
                    lean: crate::exec::lean_mode(),
                },
            );
            crate::world::set_index_probe(false);
            let before = out.violations.len();
            absorb(&mut out, &r, &tf);
            count_fault(&mut out, &r);
            if in_rehash {
                out.stats.bump("fault_fired:user_panic_inside_index_rehash");
                tag_rehash(&mut out, before);
                if out.violations.len() > before {
                    tagged += 1;
                }
            }
            if out.violations.iter().filter(|(v, _)| !v.oracle.ends_with(REHASH_TAG)).count() >= 4 {
                break;
            }
        }
        crate::sup::note_fault(0);
    }
    out
}

fn count_fault(out: &mut CaseResult, r: &ExecResult) {
    if r.faults_fired > 0 {
        out.stats.bump("fault_fired:user_panic");
        if r.faults_fired > 1 {
            out.stats.bump("fault_fired:double_fault");
        }
        if let Some(k) = r.fault_kind {
            out.stats.bump(&format!("fault_in_call:{}", crate::world::CALL_KIND_NAMES[k]));
        }
        if let Some(c) = r.fault_code {
            out.stats.bump(&format!("fault_during:{}", c.name()));
            // distinct (operation, call kind) injection sites
            let h = crate::rng::mix(crate::rng::fnv64(c.name()), r.fault_kind.unwrap_or(99) as u64);
            out.stats.distinct.insert(h ^ 0xFA17);
        }
    } else {
        out.stats.bump("fault_planned_not_fired");
    }
}
