//! RawLRU / LRUCache subject.
use super::*;
use crate::alpha::{snap_list, Alpha, Kind};
use crate::hashers::{SimBuildHasher, HB};
use crate::keys::{SimKey, TV};
use crate::ops::{Code, Op, Val};
use caches::lru::CacheError;
use caches::{Cache, DefaultHashBuilder, RawLRU, ResizableCache};
use std::marker::PhantomData;

/// which constructor family (decides the E and S type parameters)
pub trait LruFlavor: 'static {
    type E: Cb;
    type S: HB;
    const NAME: &'static str;
    fn build<K: SimKey>(cap: usize, hs: &HasherSpec) -> Result<RawLRU<K, TV, Self::E, Self::S>, CacheError>;
    fn convert<K: SimKey>(_ctor: u8, _n: usize, _dup: usize) -> Option<RawLRU<K, TV, Self::E, Self::S>> {
        None
    }
}
pub struct FSim;
pub struct FSimCb;
pub struct FRs;
pub struct FRsCb;
/// owned hasher + a zero-sized callback type (constructor code 9)
pub struct FSimCbZ;
impl LruFlavor for FSimCbZ {
    type E = ZstCallback;
    type S = SimBuildHasher;
    const NAME: &'static str = "RawLRU::with_on_evict_cb_and_hasher (zero-sized callback type)";
    fn build<K: SimKey>(cap: usize, hs: &HasherSpec) -> Result<RawLRU<K, TV, Self::E, Self::S>, CacheError> {
        RawLRU::with_on_evict_cb_and_hasher(cap, ZstCallback::make(), SimBuildHasher::new(*hs))
    }
}
impl LruFlavor for FSim {
    type E = DefaultEvictCallback;
    type S = SimBuildHasher;
    const NAME: &'static str = "RawLRU::with_hasher";
    fn build<K: SimKey>(cap: usize, hs: &HasherSpec) -> Result<RawLRU<K, TV, Self::E, Self::S>, CacheError> {
        RawLRU::with_hasher(cap, SimBuildHasher::new(*hs))
    }
}
impl LruFlavor for FSimCb {
    type E = SimCallback;
    type S = SimBuildHasher;
    const NAME: &'static str = "RawLRU::with_on_evict_cb_and_hasher";
    fn build<K: SimKey>(cap: usize, hs: &HasherSpec) -> Result<RawLRU<K, TV, Self::E, Self::S>, CacheError> {
        RawLRU::with_on_evict_cb_and_hasher(cap, SimCallback::make(), SimBuildHasher::new(*hs))
    }
}
impl LruFlavor for FRs {
    type E = DefaultEvictCallback;
    type S = DefaultHashBuilder;
    const NAME: &'static str = "RawLRU::new";
    fn build<K: SimKey>(cap: usize, _hs: &HasherSpec) -> Result<RawLRU<K, TV, Self::E, Self::S>, CacheError> {
        RawLRU::new(cap)
    }
    /// conversions (L8): ctor 1.. build the cache from `n` pairs (k_i, v_{CONV_VAL_BASE+i})
    fn convert<K: SimKey>(ctor: u8, n: usize, dup: usize) -> Option<RawLRU<K, TV, Self::E, Self::S>> {
        use std::collections::{LinkedList, VecDeque};
        let pairs = || -> Vec<(K, TV)> {
            // the last `dup` pairs repeat the keys of the first ones (with values of their own)
            let first_dup = (n - dup.min(n)) as u32;
            let ident = move |i: u32| if i > first_dup { i - first_dup } else { i };
            crate::alloc::harness_scope(|| (1..=n as u32).map(|i| (K::make(ident(i)), TV::new(CONV_VAL_BASE + i as u64))).collect())
        };
        Some(match ctor {
            1 => RawLRU::from(pairs()),
            2 => pairs().into_iter().filter(|_| true).collect(),
            3 => {
                let v = pairs();
                let c = RawLRU::from(&v[..]);
                crate::alloc::harness_scope(move || drop(v));
                c
            }
            4 => {
                let mut v = pairs();
                let c = RawLRU::from(&mut v[..]);
                crate::alloc::harness_scope(move || drop(v));
                c
            }
            5 => RawLRU::from(pairs().into_iter().collect::<VecDeque<_>>()),
            6 => RawLRU::from(pairs().into_iter().collect::<LinkedList<_>>()),
            7 => {
                // fixed-size arrays: N = 0, 1 or 3
                let mut v = pairs();
                match n {
                    0 => {
                        let a: [(K, TV); 0] = [];
                        RawLRU::from(a)
                    }
                    1 => {
                        let a: [(K, TV); 1] = [v.pop().unwrap()];
                        RawLRU::from(a)
                    }
                    2 => {
                        let b = v.pop().unwrap();
                        let a0 = v.pop().unwrap();
                        RawLRU::from([a0, b])
                    }
                    _ => {
                        let rest = v.split_off(3);
                        crate::alloc::harness_scope(move || drop(rest));
                        let c = v.pop().unwrap();
                        let b = v.pop().unwrap();
                        let a0 = v.pop().unwrap();
                        RawLRU::from([a0, b, c])
                    }
                }
            }
            _ => pairs().into_iter().collect(),
        })
    }
}
pub const CONV_VAL_BASE: u64 = 1_000_000;
impl LruFlavor for FRsCb {
    type E = SimCallback;
    type S = DefaultHashBuilder;
    const NAME: &'static str = "RawLRU::with_on_evict_cb";
    fn build<K: SimKey>(cap: usize, _hs: &HasherSpec) -> Result<RawLRU<K, TV, Self::E, Self::S>, CacheError> {
        RawLRU::with_on_evict_cb(cap, SimCallback::make())
    }
}

/// value-type twin: the same calls on a `RawLRU<u32, ()>` (zero-sized value, untracked key, fixed
/// SipHash). The recency order of a RawLRU must not depend on the value type (C06 holds for every
/// `V`): after every call the two key orders are compared. Harness-side only: no tracked object,
/// no numbered call into user code, allocations outside the ledger.
pub type Twin = RawLRU<u32, (), DefaultEvictCallback, std::hash::BuildHasherDefault<std::collections::hash_map::DefaultHasher>>;

fn twin_apply(z: &mut Twin, op: &Op) {
    use Code::*;
    match op.code {
        Put => {
            z.put(op.k, ());
        }
        Get => {
            z.get(&op.k);
        }
        GetMut => {
            z.get_mut(&op.k);
        }
        Peek => {
            z.peek(&op.k);
        }
        PeekMut => {
            z.peek_mut(&op.k);
        }
        Contains => {
            z.contains(&op.k);
        }
        Remove => {
            z.remove(&op.k);
        }
        Purge => z.purge(),
        Resize => {
            z.resize(crate::ops::resize_arg(op.n));
        }
        GetLru => {
            z.get_lru();
        }
        GetLruMut => {
            z.get_lru_mut();
        }
        GetMru => {
            z.get_mru();
        }
        GetMruMut => {
            z.get_mru_mut();
        }
        PeekLru => {
            z.peek_lru();
        }
        PeekLruMut => {
            z.peek_lru_mut();
        }
        PeekMru => {
            z.peek_mru();
        }
        PeekMruMut => {
            z.peek_mru_mut();
        }
        PeekOrPut => {
            z.peek_or_put(op.k, ());
        }
        PeekMutOrPut => {
            z.peek_mut_or_put(op.k, ());
        }
        ContainsOrPut => {
            z.contains_or_put(op.k, ());
        }
        RemoveLru => {
            z.remove_lru();
        }
        _ => {}
    }
}

pub struct LruSubj<K: SimKey, F: LruFlavor> {
    pub c: Option<RawLRU<K, TV, F::E, F::S>>,
    cb: Option<u32>,
    /// the value-type twin; dropped for good when a call on `c` did not return (fault, watchdog)
    z: Option<Twin>,
    z_pending: bool,
    _f: PhantomData<F>,
}

impl<K: SimKey, F: LruFlavor> LruSubj<K, F> {
    pub fn construct(h: &Header) -> Result<Self, String> {
        let hs = h.hashers.first().copied().unwrap_or(HasherSpec::IDENTITY);
        let cap = h.sizes[0];
        if h.ctor >= 1 {
            if let Some(c) = lib!(F::convert::<K>(h.ctor, cap, h.sizes.get(1).copied().unwrap_or(0))) {
                // C17: the same input converted twice (two hash-map instances, i.e. two
                // RandomState keys) must give the same recency order
                if let Some(c2) = lib!(F::convert::<K>(h.ctor, cap, h.sizes.get(1).copied().unwrap_or(0))) {
                    let o1: Vec<u32> = c.keys().map(|k| k.raw().0).collect();
                    let o2: Vec<u32> = c2.keys().map(|k| k.raw().0).collect();
                    if o1 != o2 {
                        crate::world::report(
                            "C17",
                            "conversion_order_unstable",
                            format!("two conversions of the same {} pairs have recency orders {:?} and {:?}", cap, o1, o2),
                        );
                    }
                    lib!(drop(c2));
                }
                return Ok(LruSubj {
                    c: Some(c),
                    cb: None,
                    z: None,
                    z_pending: false,
                    _f: PhantomData,
                });
            }
        }
        match lib!(F::build::<K>(cap, &hs)) {
            Ok(c) => {
                let cb = c_cb_id::<K, F>(&c);
                let z = crate::alloc::harness_scope(|| Twin::with_hasher(cap, Default::default()).ok());
                Ok(LruSubj {
                    c: Some(c),
                    cb,
                    z,
                    z_pending: false,
                    _f: PhantomData,
                })
            }
            Err(e) => Err(format!("{:?}", e)),
        }
    }
    pub fn from_cache(c: RawLRU<K, TV, F::E, F::S>) -> Self {
        LruSubj {
            c: Some(c),
            cb: None,
            z: None,
            z_pending: false,
            _f: PhantomData,
        }
    }
    fn apply_main(&mut self, op: &Op) -> Val {
        let c = match self.c.as_mut() {
            Some(c) => c,
            None => return Val::Unsupported,
        };
        use Code::*;
        match op.code {
            Put => {
                let (k, v) = (K::make(op.k), TV::new(op.v));
                put_res(lib!(c.put(k, v)))
            }
            Get => lookup!(K, op, c.get, |r| opt_v(r)),
            GetMut => lookup!(K, op, c.get_mut, |r| opt_v_mut(r, op.w)),
            Peek => lookup!(K, op, c.peek, |r| opt_v(r)),
            PeekMut => lookup!(K, op, c.peek_mut, |r| opt_v_mut(r, op.w)),
            Contains => lookup!(K, op, c.contains, |r| Val::Bool(r)),
            Remove => lookup!(K, op, c.remove, |r| owned_v(r)),
            Purge => {
                lib!(c.purge());
                Val::Unit
            }
            Len => Val::Num(lib!(c.len()) as i64),
            Cap => Val::Num(lib!(c.cap()) as i64),
            IsEmpty => Val::Bool(lib!(c.is_empty())),
            Resize => Val::Num(lib!(c.resize(crate::ops::resize_arg(op.n))) as i64),
            GetLru => opt_kv(lib!(c.get_lru())),
            GetLruMut => opt_kv_mut(lib!(c.get_lru_mut()), op.w),
            GetMru => opt_kv(lib!(c.get_mru())),
            GetMruMut => opt_kv_mut(lib!(c.get_mru_mut()), op.w),
            PeekLru => opt_kv(lib!(c.peek_lru())),
            PeekLruMut => opt_kv_mut(lib!(c.peek_lru_mut()), op.w),
            PeekMru => opt_kv(lib!(c.peek_mru())),
            PeekMruMut => opt_kv_mut(lib!(c.peek_mru_mut()), op.w),
            PeekOrPut => {
                let (k, v) = (K::make(op.k), TV::new(op.v));
                let (a, b) = lib!(c.peek_or_put(k, v));
                let a = opt_v(a);
                let b = match b {
                    None => Val::None,
                    Some(r) => put_res(r),
                };
                Val::Pair(Box::new(a), Box::new(b))
            }
            PeekMutOrPut => {
                let (k, v) = (K::make(op.k), TV::new(op.v));
                let (a, b) = lib!(c.peek_mut_or_put(k, v));
                let a = opt_v_mut(a, op.w);
                let b = match b {
                    None => Val::None,
                    Some(r) => put_res(r),
                };
                Val::Pair(Box::new(a), Box::new(b))
            }
            ContainsOrPut => {
                let (k, v) = (K::make(op.k), TV::new(op.v));
                let (a, b) = lib!(c.contains_or_put(k, v));
                let b = match b {
                    None => Val::None,
                    Some(r) => put_res(r),
                };
                Val::Pair(Box::new(Val::Bool(a)), Box::new(b))
            }
            RemoveLru => owned_kv(lib!(c.remove_lru())),
            Debug => {
                let s = lib!(format!("{:?}", c));
                crate::alloc::harness_scope(move || drop(s));
                Val::Unit
            }
            ListLen => Val::Num(lib!(c.len()) as i64),
            ListCap => Val::Num(lib!(c.cap()) as i64),
            Rehash => {
                lib!(c.verif_rehash());
                Val::Unit
            }
            Iter => match op.fam {
                10 => {
                    let it = lib!((&*c).into_iter());
                    drive_iter(it, &op.xs, op.n, kv_conv::<K>, Some(&|i| i.clone()))
                }
                11 => {
                    let mut wnext = op.w;
                    let it = lib!((&mut *c).into_iter());
                    drive_iter(
                        it,
                        &op.xs,
                        -1,
                        |(k, v): (&K, &mut TV)| {
                            let old = v.read();
                            if wnext != 0 {
                                v.val = wnext;
                                wnext += 1;
                            }
                            Val::KV(k.ident_checked("key (yielded by iterator)"), old)
                        },
                        None,
                    )
                }
                _ => iter_fams!(
                    K,
                    op,
                    c.iter(),
                    c.iter_lru(),
                    c.iter_mut(),
                    c.iter_lru_mut(),
                    c.keys(),
                    c.keys_lru(),
                    c.values(),
                    c.values_lru(),
                    c.values_mut(),
                    c.values_lru_mut()
                ),
            },
            _ => Val::Unsupported,
        }
    }
}

// the callback id is not readable from the cache; the flavor's `make()` allocated the latest log
fn c_cb_id<K: SimKey, F: LruFlavor>(_c: &RawLRU<K, TV, F::E, F::S>) -> Option<u32> {
    if <F::E as Cb>::HAS {
        Some(crate::world::latest_cb_log())
    } else {
        None
    }
}

pub fn kv_conv<'a, K: SimKey>(t: (&'a K, &'a TV)) -> Val {
    Val::KV(t.0.ident_checked("key (yielded by iterator)"), t.1.read())
}

impl<K: SimKey, F: LruFlavor> Subject for LruSubj<K, F> {
    fn kind(&self) -> Kind {
        Kind::Lru
    }

    fn apply(&mut self, op: &Op) -> Val {
        if self.z_pending || crate::world::faults_fired() > 0 {
            // the previous call unwound (the twin has not seen it), or a fault fired somewhere in
            // this run: after a fault nothing is required of the order any more
            self.z_pending = false;
            if let Some(z) = self.z.take() {
                crate::alloc::harness_scope(move || drop(z));
            }
        }
        self.z_pending = self.z.is_some();
        let out = self.apply_main(op);
        self.z_pending = false;
        if let (Some(c), Some(z)) = (self.c.as_ref(), self.z.as_mut()) {
            let bad = crate::alloc::harness_scope(|| {
                twin_apply(z, op);
                let n = lib!(c.len());
                if n != z.len() {
                    return Some(format!("len {} vs {}", n, z.len()));
                }
                if n <= 48 {
                    let a: Vec<u32> = lib!(c.keys()).map(|k| k.raw().0).collect();
                    let b: Vec<u32> = z.keys().copied().collect();
                    if a != b {
                        return Some(format!("keys (most recent first) {:?} vs {:?}", a, b));
                    }
                } else {
                    let a = (lib!(c.peek_mru()).map(|(k, _)| k.raw().0), lib!(c.peek_lru()).map(|(k, _)| k.raw().0));
                    let b = (z.peek_mru().map(|(k, _)| *k), z.peek_lru().map(|(k, _)| *k));
                    if a != b {
                        return Some(format!("(mru, lru) {:?} vs {:?}", a, b));
                    }
                }
                None
            });
            if let Some(d) = bad {
                crate::world::report(
                    "C06",
                    "value_type_dependence",
                    format!("after {}: RawLRU<K, V> and RawLRU<u32, ()> driven by the same calls differ: {}", op.show(), d),
                );
                // one report per subject
                if let Some(z) = self.z.take() {
                    crate::alloc::harness_scope(move || drop(z));
                }
            }
        }
        out
    }

    fn snapshot(&self, relaxed: bool) -> Alpha {
        let c = self.c.as_ref().expect("snapshot of destroyed subject");
        let l = snap_list(c, relaxed);
        Alpha {
            kind: Kind::Lru,
            scalars: vec![l.cap as i64],
            pub_len: c.len(),
            pub_cap: c.cap(),
            pub_is_empty: c.is_empty(),
            lists: vec![l],
            est: None,
            sampled: None,
        }
    }

    fn iter_probe(&self, _list: usize) -> Option<(Vec<(u32, u64)>, Vec<(u32, u64)>, usize)> {
        let c = self.c.as_ref()?;
        let f: Vec<(u32, u64)> = lib!(c.iter()).map(|(k, v): (&K, &TV)| (k.raw().0, v.val)).collect();
        let b: Vec<(u32, u64)> = lib!(c.iter()).rev().map(|(k, v): (&K, &TV)| (k.raw().0, v.val)).collect();
        Some((f, b, c.len()))
    }
    fn fork(&self) -> Option<Box<dyn Subject>> {
        let c = self.c.as_ref()?;
        let before = crate::world::cb_log_count();
        let d = lib!(c.clone());
        // the clone of the callback registers a new log; if none appeared the clone has no
        // (or a shared) callback and nothing will be attributed to it
        let cb = if crate::world::cb_log_count() > before { c_cb_id::<K, F>(&d) } else { None };
        // (a call that unwound leaves `z_pending` set: that twin is stale and is not handed on)
        let z = if self.z_pending || crate::world::faults_fired() > 0 {
            None
        } else {
            self.z.as_ref().map(|z| crate::alloc::harness_scope(|| z.clone()))
        };
        Some(Box::new(LruSubj::<K, F> {
            c: Some(d),
            cb,
            z,
            z_pending: false,
            _f: PhantomData,
        }))
    }

    fn destroy(&mut self) {
        if let Some(z) = self.z.take() {
            crate::alloc::harness_scope(move || drop(z));
        }
        if let Some(c) = self.c.take() {
            lib!(drop(c));
        }
    }
    fn is_destroyed(&self) -> bool {
        self.c.is_none()
    }
    fn leak(&mut self) {
        if let Some(c) = self.c.take() {
            std::mem::forget(c);
        }
    }
    fn cb_id(&self) -> Option<u32> {
        self.cb
    }
}
