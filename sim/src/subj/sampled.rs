//! SampledLFU subject. header: max_cost, samples, ctor, hashers[0], key_hasher.
use super::*;
use crate::alpha::{Alpha, Kind};
use crate::hashers::{SimBuildHasher, SimKeyHasher};
use crate::keys::SimKey;
use crate::ops::{Code, Op, Val};
use caches::lfu::{DefaultKeyHasher, KeyHasher, SampledLFU};
use caches::DefaultHashBuilder;
use std::hash::BuildHasher;

pub struct SampledSubj<K: SimKey, KH: KeyHasher<K> + 'static, S: BuildHasher + 'static> {
    pub c: Option<SampledLFU<K, KH, S>>,
}

pub fn construct_sim<K: SimKey>(h: &Header) -> Result<SampledSubj<K, SimKeyHasher, SimBuildHasher>, String> {
    let c = lib!(SampledLFU::with_samples_and_key_hasher_and_hasher(
        h.max_cost,
        h.samples,
        SimKeyHasher::new(h.key_hasher),
        SimBuildHasher::new(h.hashers[0]),
    ));
    Ok(SampledSubj { c: Some(c) })
}
/// custom key hasher, RandomState table
pub fn construct_kh<K: SimKey>(h: &Header) -> Result<SampledSubj<K, SimKeyHasher, DefaultHashBuilder>, String> {
    let kh = SimKeyHasher::new(h.key_hasher);
    let c = match h.ctor {
        0 => lib!(SampledLFU::with_key_hasher(h.max_cost, kh)),
        _ => lib!(SampledLFU::with_samples_and_key_hasher(h.max_cost, h.samples, kh)),
    };
    Ok(SampledSubj { c: Some(c) })
}
/// default key hasher, simulated table hasher
pub fn construct_hb<K: SimKey>(h: &Header) -> Result<SampledSubj<K, DefaultKeyHasher<K>, SimBuildHasher>, String> {
    let hb = SimBuildHasher::new(h.hashers[0]);
    let c = match h.ctor {
        0 => lib!(SampledLFU::with_hasher(h.max_cost, hb)),
        _ => lib!(SampledLFU::with_samples_and_hasher(h.max_cost, h.samples, hb)),
    };
    Ok(SampledSubj { c: Some(c) })
}
pub fn construct_rs<K: SimKey>(h: &Header) -> Result<SampledSubj<K, DefaultKeyHasher<K>, DefaultHashBuilder>, String> {
    let c = match h.ctor {
        0 => lib!(SampledLFU::<K>::new(h.max_cost)),
        _ => lib!(SampledLFU::<K>::with_samples(h.max_cost, h.samples)),
    };
    Ok(SampledSubj { c: Some(c) })
}

fn pairs(xs: &[u64]) -> Vec<(u64, i64)> {
    xs.chunks(2).filter(|c| c.len() == 2).map(|c| (c[0], c[1] as i64)).collect()
}

impl<K: SimKey, KH: KeyHasher<K> + 'static, S: BuildHasher + 'static> Subject for SampledSubj<K, KH, S> {
    fn kind(&self) -> Kind {
        Kind::Sampled
    }
    fn apply(&mut self, op: &Op) -> Val {
        let c = match self.c.as_mut() {
            Some(c) => c,
            None => return Val::Unsupported,
        };
        use Code::*;
        match op.code {
            SInc => {
                K::with_q(op.k, |q| lib!(c.increment(q, op.n)));
                Val::Unit
            }
            SIncH => {
                lib!(c.increment_hashed_key(op.v, op.n));
                Val::Unit
            }
            SUpd => Val::Bool(K::with_q(op.k, |q| lib!(c.update(q, op.n)))),
            SUpdH => Val::Bool(lib!(c.update_hashed_key(op.v, op.n))),
            SRem => match K::with_q(op.k, |q| lib!(c.remove(q))) {
                Some(x) => Val::Num(x),
                None => Val::None,
            },
            SRemH => match lib!(c.remove_hashed_key(op.v)) {
                Some(x) => Val::Num(x),
                None => Val::None,
            },
            SClear => {
                lib!(c.clear());
                Val::Unit
            }
            SMax => {
                lib!(c.update_max_cost(op.n));
                Val::Unit
            }
            SRoom => Val::Num(lib!(c.room_left(op.n))),
            SFill => {
                let input = pairs(&op.xs);
                let out = lib!(c.fill_sample(input));
                let v = Val::List(
                    out.iter()
                        .map(|(k, c)| Val::Pair(Box::new(Val::Num(*k as i64)), Box::new(Val::Num(*c))))
                        .collect(),
                );
                crate::alloc::harness_scope(move || drop(out));
                v
            }
            _ => Val::Unsupported,
        }
    }
    fn snapshot(&self, _relaxed: bool) -> Alpha {
        let c = self.c.as_ref().expect("snapshot of destroyed subject");
        let mut st = c.verif_state();
        st.key_costs.sort_unstable();
        Alpha {
            kind: Kind::Sampled,
            scalars: vec![],
            lists: vec![],
            est: None,
            sampled: Some(st),
            pub_len: 0,
            pub_cap: 0,
            pub_is_empty: true,
        }
    }
    fn fork(&self) -> Option<Box<dyn Subject>> {
        None
    }
    fn destroy(&mut self) {
        if let Some(c) = self.c.take() {
            lib!(drop(c));
        }
    }
    fn is_destroyed(&self) -> bool {
        self.c.is_none()
    }
    fn leak(&mut self) {
        if let Some(c) = self.c.take() {
            std::mem::forget(c);
        }
    }
    fn key_hash(&self, ident: u32) -> Option<u64> {
        let c = self.c.as_ref()?;
        Some(K::with_q(ident, |q| c.hash_key(q)))
    }
}
