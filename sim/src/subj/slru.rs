//! SegmentedCache subject. header.sizes = [probationary, protected]; hashers = [probationary, protected]
use super::*;
use crate::alpha::{snap_list, Alpha, Kind};
use crate::hashers::HB;
use crate::keys::{SimKey, TV};
use crate::ops::{Code, Op, Val};
use caches::{Cache, SegmentedCache, SegmentedCacheBuilder};

pub struct SlruSubj<K: SimKey, S: HB> {
    pub c: Option<SegmentedCache<K, TV, S, S>>,
}

impl<K: SimKey, S: HB> SlruSubj<K, S> {
    pub fn construct(h: &Header) -> Result<Self, String> {
        let (cp, cq) = (h.sizes[0], h.sizes[1]);
        let hp = S::make(&h.hashers[0]);
        let hq = S::make(&h.hashers[1]);
        let r = match h.ctor {
            0 => lib!(SegmentedCacheBuilder::new(cp, cq)
                .set_probationary_hasher(hp)
                .set_protected_hasher(hq)
                .finalize::<K, TV>()),
            1 => lib!(SegmentedCache::from_builder(
                SegmentedCacheBuilder::default()
                    .set_probationary_size(cp)
                    .set_protected_size(cq)
                    .set_protected_hasher(hq)
                    .set_probationary_hasher(hp)
            )),
            // the size setters in the other order, over different initial sizes
            2 => lib!(SegmentedCacheBuilder::new(cq + 1, cp + 2)
                .set_probationary_hasher(hp)
                .set_protected_size(cq)
                .set_protected_hasher(hq)
                .set_probationary_size(cp)
                .finalize::<K, TV>()),
            _ => return Err("bad ctor".into()),
        };
        r.map(|c| SlruSubj { c: Some(c) }).map_err(|e| format!("{:?}", e))
    }
}

/// RandomState constructor paths
pub fn construct_rs<K: SimKey>(h: &Header) -> Result<SlruSubj<K, caches::DefaultHashBuilder>, String> {
    let (cp, cq) = (h.sizes[0], h.sizes[1]);
    let r = match h.ctor {
        0 => lib!(SegmentedCache::<K, TV>::new(cp, cq)),
        1 => lib!(SegmentedCache::<K, TV>::builder(cp, cq).finalize()),
        2 => lib!(SegmentedCacheBuilder::default()
            .set_probationary_size(cp)
            .set_protected_size(cq)
            .finalize()),
        _ => lib!(SegmentedCache::<K, TV>::builder(cq + 1, cp + 2)
            .set_protected_size(cq)
            .set_probationary_size(cp)
            .finalize()),
    };
    r.map(|c| SlruSubj { c: Some(c) }).map_err(|e| format!("{:?}", e))
}

impl<K: SimKey, S: HB> Subject for SlruSubj<K, S> {
    fn kind(&self) -> Kind {
        Kind::Slru
    }
    fn apply(&mut self, op: &Op) -> Val {
        let c = match self.c.as_mut() {
            Some(c) => c,
            None => return Val::Unsupported,
        };
        use Code::*;
        match op.code {
            Put => {
                let (k, v) = (K::make(op.k), TV::new(op.v));
                put_res(lib!(c.put(k, v)))
            }
            PutProtected => {
                let (k, v) = (K::make(op.k), TV::new(op.v));
                put_res(lib!(c.put_protected(k, v)))
            }
            Get => lookup!(K, op, c.get, |r| opt_v(r)),
            GetMut => lookup!(K, op, c.get_mut, |r| opt_v_mut(r, op.w)),
            Peek => lookup!(K, op, c.peek, |r| opt_v(r)),
            PeekMut => lookup!(K, op, c.peek_mut, |r| opt_v_mut(r, op.w)),
            Contains => lookup!(K, op, c.contains, |r| Val::Bool(r)),
            Remove => lookup!(K, op, c.remove, |r| owned_v(r)),
            Purge => {
                lib!(c.purge());
                Val::Unit
            }
            Len => Val::Num(lib!(c.len()) as i64),
            Cap => Val::Num(lib!(c.cap()) as i64),
            IsEmpty => Val::Bool(lib!(c.is_empty())),
            SegPeekLru => {
                if op.list == 0 {
                    opt_kv(lib!(c.peek_lru_from_probationary()))
                } else {
                    opt_kv(lib!(c.peek_lru_from_protected()))
                }
            }
            SegPeekLruMut => {
                if op.list == 0 {
                    opt_kv_mut(lib!(c.peek_lru_mut_from_probationary()), op.w)
                } else {
                    opt_kv_mut(lib!(c.peek_lru_mut_from_protected()), op.w)
                }
            }
            SegPeekMru => {
                if op.list == 0 {
                    opt_kv(lib!(c.peek_mru_from_probationary()))
                } else {
                    opt_kv(lib!(c.peek_mru_from_protected()))
                }
            }
            SegPeekMruMut => {
                if op.list == 0 {
                    opt_kv_mut(lib!(c.peek_mru_mut_from_probationary()), op.w)
                } else {
                    opt_kv_mut(lib!(c.peek_mru_mut_from_protected()), op.w)
                }
            }
            SegRemoveLru => {
                if op.list == 0 {
                    owned_kv(lib!(c.remove_lru_from_probationary()))
                } else {
                    owned_kv(lib!(c.remove_lru_from_protected()))
                }
            }
            ListLen => Val::Num(if op.list == 0 { lib!(c.probationary_len()) } else { lib!(c.protected_len()) } as i64),
            ListCap => Val::Num(if op.list == 0 { lib!(c.probationary_cap()) } else { lib!(c.protected_cap()) } as i64),
            Rehash => {
                lib!(c.verif_rehash(op.list as usize));
                Val::Unit
            }
            _ => Val::Unsupported,
        }
    }
    fn snapshot(&self, relaxed: bool) -> Alpha {
        let c = self.c.as_ref().expect("snapshot of destroyed subject");
        let (p, q) = c.verif_segments();
        Alpha {
            kind: Kind::Slru,
            scalars: vec![c.probationary_cap() as i64, c.protected_cap() as i64],
            lists: vec![snap_list(p, relaxed), snap_list(q, relaxed)],
            est: None,
            sampled: None,
            pub_len: c.len(),
            pub_cap: c.cap(),
            pub_is_empty: c.is_empty(),
        }
    }
    fn fork(&self) -> Option<Box<dyn Subject>> {
        let c = self.c.as_ref()?;
        let d = lib!(c.clone());
        Some(Box::new(SlruSubj::<K, S> { c: Some(d) }))
    }
    fn destroy(&mut self) {
        if let Some(c) = self.c.take() {
            lib!(drop(c));
        }
    }
    fn is_destroyed(&self) -> bool {
        self.c.is_none()
    }
    fn leak(&mut self) {
        if let Some(c) = self.c.take() {
            std::mem::forget(c);
        }
    }
}
