//! AdaptiveCache subject. header.sizes = [size]; lists / hashers = [recent, frequent, recent_evict, frequent_evict]
use super::*;
use crate::alpha::{snap_list, Alpha, Kind};
use crate::hashers::HB;
use crate::keys::{SimKey, TV};
use crate::ops::{Code, Op, Val};
use caches::{AdaptiveCache, AdaptiveCacheBuilder, Cache};

pub struct ArcSubj<K: SimKey, S: HB> {
    // type parameters of AdaptiveCache: RH, REH, FH, FEH
    pub c: Option<AdaptiveCache<K, TV, S, S, S, S>>,
}

impl<K: SimKey, S: HB> ArcSubj<K, S> {
    pub fn construct(h: &Header) -> Result<Self, String> {
        let size = h.sizes[0];
        let b = AdaptiveCacheBuilder::new(size)
            .set_recent_hasher(S::make(&h.hashers[0]))
            .set_frequent_hasher(S::make(&h.hashers[1]))
            .set_recent_evict_hasher(S::make(&h.hashers[2]))
            .set_frequent_evict_hasher(S::make(&h.hashers[3]));
        let r = match h.ctor {
            0 => lib!(b.finalize::<K, TV>()),
            _ => lib!(AdaptiveCache::from_builder(b)),
        };
        r.map(|c| ArcSubj { c: Some(c) }).map_err(|e| format!("{:?}", e))
    }
}

pub fn construct_rs<K: SimKey>(h: &Header) -> Result<ArcSubj<K, caches::DefaultHashBuilder>, String> {
    let size = h.sizes[0];
    let r = match h.ctor {
        0 => lib!(AdaptiveCache::<K, TV>::new(size)),
        _ => lib!(AdaptiveCache::<K, TV>::builder(size).finalize()),
    };
    r.map(|c| ArcSubj { c: Some(c) }).map_err(|e| format!("{:?}", e))
}

impl<K: SimKey, S: HB> Subject for ArcSubj<K, S> {
    fn kind(&self) -> Kind {
        Kind::Arc
    }
    fn apply(&mut self, op: &Op) -> Val {
        let c = match self.c.as_mut() {
            Some(c) => c,
            None => return Val::Unsupported,
        };
        use Code::*;
        match op.code {
            Put => {
                let (k, v) = (K::make(op.k), TV::new(op.v));
                put_res(lib!(c.put(k, v)))
            }
            Get => lookup!(K, op, c.get, |r| opt_v(r)),
            GetMut => lookup!(K, op, c.get_mut, |r| opt_v_mut(r, op.w)),
            Peek => lookup!(K, op, c.peek, |r| opt_v(r)),
            PeekMut => lookup!(K, op, c.peek_mut, |r| opt_v_mut(r, op.w)),
            Contains => lookup!(K, op, c.contains, |r| Val::Bool(r)),
            Remove => lookup!(K, op, c.remove, |r| owned_v(r)),
            Purge => {
                lib!(c.purge());
                Val::Unit
            }
            Len => Val::Num(lib!(c.len()) as i64),
            Cap => Val::Num(lib!(c.cap()) as i64),
            IsEmpty => Val::Bool(lib!(c.is_empty())),
            Partition => Val::Num(lib!(c.partition()) as i64),
            ListLen => Val::Num(match op.list {
                0 => lib!(c.recent_len()),
                1 => lib!(c.frequent_len()),
                2 => lib!(c.recent_evict_len()),
                _ => lib!(c.frequent_evict_len()),
            } as i64),
            Rehash => {
                lib!(c.verif_rehash(op.list as usize));
                Val::Unit
            }
            Iter => match op.list {
                0 => iter_fams!(
                    K, op,
                    c.recent_iter(), c.recent_iter_lru(), c.recent_iter_mut(), c.recent_iter_lru_mut(),
                    c.recent_keys(), c.recent_keys_lru(), c.recent_values(), c.recent_values_lru(),
                    c.recent_values_mut(), c.recent_values_lru_mut()
                ),
                1 => iter_fams!(
                    K, op,
                    c.frequent_iter(), c.frequent_iter_lru(), c.frequent_iter_mut(), c.frequent_iter_lru_mut(),
                    c.frequent_keys(), c.frequent_keys_lru(), c.frequent_values(), c.frequent_values_lru(),
                    c.frequent_values_mut(), c.frequent_values_lru_mut()
                ),
                2 => iter_fams!(
                    K, op,
                    c.recent_evict_iter(), c.recent_evict_iter_lru(), c.recent_evict_iter_mut(), c.recent_evict_iter_lru_mut(),
                    c.recent_evict_keys(), c.recent_evict_keys_lru(), c.recent_evict_values(), c.recent_evict_values_lru(),
                    c.recent_evict_values_mut(), c.recent_evict_values_lru_mut()
                ),
                _ => iter_fams!(
                    K, op,
                    c.frequent_evict_iter(), c.frequent_evict_iter_lru(), c.frequent_evict_iter_mut(), c.frequent_evict_iter_lru_mut(),
                    c.frequent_evict_keys(), c.frequent_evict_keys_lru(), c.frequent_evict_values(), c.frequent_evict_values_lru(),
                    c.frequent_evict_values_mut(), c.frequent_evict_values_lru_mut()
                ),
            },
            _ => Val::Unsupported,
        }
    }
    fn snapshot(&self, relaxed: bool) -> Alpha {
        let c = self.c.as_ref().expect("snapshot of destroyed subject");
        let (r, f, re, fe) = c.verif_lists();
        Alpha {
            kind: Kind::Arc,
            scalars: vec![c.cap() as i64, c.partition() as i64],
            lists: vec![
                snap_list(r, relaxed),
                snap_list(f, relaxed),
                snap_list(re, relaxed),
                snap_list(fe, relaxed),
            ],
            est: None,
            sampled: None,
            pub_len: c.len(),
            pub_cap: c.cap(),
            pub_is_empty: c.is_empty(),
        }
    }
    fn iter_probe(&self, list: usize) -> Option<(Vec<(u32, u64)>, Vec<(u32, u64)>, usize)> {
        let c = self.c.as_ref()?;
        let cv = |(k, v): (&K, &TV)| (k.raw().0, v.val);
        Some(match list {
            0 => (lib!(c.recent_iter()).map(cv).collect(), lib!(c.recent_iter()).rev().map(cv).collect(), c.recent_len()),
            1 => (lib!(c.frequent_iter()).map(cv).collect(), lib!(c.frequent_iter()).rev().map(cv).collect(), c.frequent_len()),
            2 => (lib!(c.recent_evict_iter()).map(cv).collect(), lib!(c.recent_evict_iter()).rev().map(cv).collect(), c.recent_evict_len()),
            _ => (lib!(c.frequent_evict_iter()).map(cv).collect(), lib!(c.frequent_evict_iter()).rev().map(cv).collect(), c.frequent_evict_len()),
        })
    }
    fn fork(&self) -> Option<Box<dyn Subject>> {
        None
    }
    fn destroy(&mut self) {
        if let Some(c) = self.c.take() {
            lib!(drop(c));
        }
    }
    fn is_destroyed(&self) -> bool {
        self.c.is_none()
    }
    fn leak(&mut self) {
        if let Some(c) = self.c.take() {
            std::mem::forget(c);
        }
    }
}
