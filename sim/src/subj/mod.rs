//! Subjects: thin drivers around the real caches. Every library call is made inside `lib!()` so
//! that the allocator attributes its allocations to the library.
use crate::alpha::{Alpha, Kind};
use crate::hashers::{HasherSpec, KeyHasherSpec};
use crate::keys::{SimKey, TV};
use crate::ops::{Op, PutRes, Val};
use crate::world::{self, CallKind};
use caches::{DefaultEvictCallback, OnEvictCallback, PutResult};

pub mod arc;
pub mod factory;
pub mod lru;
pub mod sampled;
pub mod slru;
pub mod tlfu;
pub mod twoq;
pub mod wtlfu;

/// construction parameters of a subject (explicit in every replay file)
#[derive(Clone, Debug, PartialEq)]
pub struct Header {
    pub kind: Kind,
    /// "TK" | "SKey"
    pub key_type: String,
    /// constructor path (subject specific)
    pub ctor: u8,
    /// LRU: [cap]; SLRU: [cp, cq]; 2Q: [size]; ARC: [size]; WTLFU: [cw, cq(protected), cp(probationary)] ;
    /// TinyLFU: [size]; Sampled: []
    pub sizes: Vec<usize>,
    /// 2Q: [recent ratio, ghost ratio]; TinyLFU/WTLFU: [fp ratio]
    pub ratios: Vec<f64>,
    pub samples: usize,
    pub max_cost: i64,
    /// one per inner hash index
    pub hashers: Vec<HasherSpec>,
    pub key_hasher: KeyHasherSpec,
    /// uncontrolled RandomState constructors
    pub random_state: bool,
    pub with_cb: bool,
    /// simulated clock value handed to the sketch constructor (None = real clock)
    pub clock: Option<u64>,
    /// keys are idents 1..=universe
    pub universe: u32,
}

pub trait Subject {
    fn kind(&self) -> Kind;
    /// executes one event against the real code
    fn apply(&mut self, op: &Op) -> Val;
    /// observed abstract state (hooks only; calls no user code)
    fn snapshot(&self, relaxed: bool) -> Alpha;
    /// `Clone` of the real object (user code runs)
    fn fork(&self) -> Option<Box<dyn Subject>>;
    /// drop the real object now (user code runs)
    fn destroy(&mut self);
    fn is_destroyed(&self) -> bool;
    /// forget the real object without running its destructor (crash containment only)
    fn leak(&mut self);
    fn cb_id(&self) -> Option<u32> {
        None
    }
    /// frequency estimate the real estimator gives for `ident` right now (W-TinyLFU)
    fn estimate(&self, _ident: u32) -> Option<u64> {
        None
    }
    /// clone of the real estimator, to replay estimator-only effects on (W-TinyLFU, L6)
    fn est_after(&self, _script: &[EstStep], _ident: u32) -> Option<caches::verif::TinyLFUState> {
        None
    }
    /// full forward and full backward traversal of list `list` through the public `iter()`
    /// family, plus the list's public length (C14's self-consistency probe)
    fn iter_probe(&self, _list: usize) -> Option<(Vec<(u32, u64)>, Vec<(u32, u64)>, usize)> {
        None
    }
    /// 64-bit digest the subject's key hasher gives to `ident` (TinyLFU / SampledLFU)
    fn key_hash(&self, _ident: u32) -> Option<u64> {
        None
    }
}

#[derive(Clone, Copy, Debug, PartialEq)]
pub enum EstStep {
    Inc,
    TryReset,
    Clear,
}

// ---- eviction callback seam ------------------------------------------------------------------

pub struct SimCallback {
    pub id: u32,
}
impl Clone for SimCallback {
    fn clone(&self) -> Self {
        world::user_call(CallKind::CallbackClone);
        SimCallback {
            id: world::new_cb_log(),
        }
    }
}
impl OnEvictCallback for SimCallback {
    fn on_evict<K2, V2>(&self, key: &K2, val: &V2) {
        world::user_call(CallKind::Callback);
        crate::alloc::harness_scope(|| self.record(key, val));
        if world::cb_panic_due() && !std::thread::panicking() {
            std::panic::panic_any(world::SoftCbPanic);
        }
    }
}
impl SimCallback {
    fn record<K2, V2>(&self, key: &K2, val: &V2) {
        let kn = std::any::type_name::<K2>();
        let vn = std::any::type_name::<V2>();
        if vn != std::any::type_name::<TV>() {
            world::report("C15", "callback_types", format!("callback got value type {}", vn));
            return;
        }
        let v: &TV = unsafe { &*(val as *const V2 as *const TV) };
        let ident = if kn == std::any::type_name::<crate::keys::TK>() {
            let k: &crate::keys::TK = unsafe { &*(key as *const K2 as *const crate::keys::TK) };
            k.ident_checked("key (callback argument)")
        } else if kn == std::any::type_name::<crate::keys::SKey>() {
            let k: &crate::keys::SKey = unsafe { &*(key as *const K2 as *const crate::keys::SKey) };
            k.ident_checked("key (callback argument)")
        } else {
            world::report("C15", "callback_types", format!("callback got key type {}", kn));
            return;
        };
        let val = v.read();
        world::cb_push(self.id, ident, val);
    }
}

/// A callback type without any state (zero-sized), as users write them when the callback reports
/// to a global: its log is the one `make()` opened last. Never used together with clones.
#[derive(Clone)]
pub struct ZstCallback;
thread_local! {
    static ZST_LOG: std::cell::Cell<u32> = const { std::cell::Cell::new(0) };
}
impl OnEvictCallback for ZstCallback {
    fn on_evict<K2, V2>(&self, key: &K2, val: &V2) {
        world::user_call(CallKind::Callback);
        let proxy = SimCallback { id: ZST_LOG.with(|c| c.get()) };
        crate::alloc::harness_scope(|| proxy.record(key, val));
        if world::cb_panic_due() && !std::thread::panicking() {
            std::panic::panic_any(world::SoftCbPanic);
        }
    }
}
impl Cb for ZstCallback {
    const HAS: bool = true;
    fn make() -> Self {
        ZST_LOG.with(|c| c.set(world::new_cb_log()));
        ZstCallback
    }
    fn id(&self) -> Option<u32> {
        Some(ZST_LOG.with(|c| c.get()))
    }
}

pub trait Cb: OnEvictCallback + Clone + 'static {
    const HAS: bool;
    fn make() -> Self;
    fn id(&self) -> Option<u32>;
}
impl Cb for DefaultEvictCallback {
    const HAS: bool = false;
    fn make() -> Self {
        DefaultEvictCallback
    }
    fn id(&self) -> Option<u32> {
        None
    }
}
impl Cb for SimCallback {
    const HAS: bool = true;
    fn make() -> Self {
        SimCallback {
            id: world::new_cb_log(),
        }
    }
    fn id(&self) -> Option<u32> {
        Some(self.id)
    }
}

// ---- result normalisation --------------------------------------------------------------------

/// take ownership of a PutResult handed back by the library: read it, then drop it (harness side)
pub fn put_res<K: SimKey>(r: PutResult<K, TV>) -> Val {
    let out = match &r {
        PutResult::Put => PutRes::Put,
        PutResult::Update(v) => PutRes::Update(v.read()),
        PutResult::Evicted { key, value } => {
            PutRes::Evicted(key.ident_checked("key (in PutResult)"), value.read())
        }
        PutResult::EvictedAndUpdate { evicted, update } => PutRes::EvictedAndUpdate(
            evicted.0.ident_checked("key (in PutResult)"),
            evicted.1.read(),
            update.read(),
        ),
    };
    structural_check(&r);
    crate::alloc::harness_scope(move || drop(r));
    Val::Put(out)
}

/// C12's structural clause, checked incidentally on every PutResult the library produces:
/// the crate's `==` must agree with a structural comparison on the value itself.
fn structural_check<K: SimKey>(r: &PutResult<K, TV>) {
    // payloads whose own equality is not reflexive: "equal exactly when the payloads are equal"
    // makes such a result unequal to itself, even when both sides are the same object
    fn same<T: PartialEq>(a: &T, b: &T) -> bool {
        a == b
    }
    let nan = f64::NAN;
    let (refl_broken, what) = match r {
        PutResult::Put => (false, "Put"),
        PutResult::Update(_) => {
            let n: PutResult<u32, f64> = PutResult::Update(nan);
            let one: PutResult<u32, f64> = PutResult::Update(1.0);
            (same(&n, &n) || !same(&one, &one), "Update(NaN)")
        }
        PutResult::Evicted { .. } => {
            let n: PutResult<u32, f64> = PutResult::Evicted { key: 1, value: nan };
            let one: PutResult<u32, f64> = PutResult::Evicted { key: 1, value: 1.0 };
            (same(&n, &n) || !same(&one, &one), "Evicted{value: NaN}")
        }
        PutResult::EvictedAndUpdate { .. } => {
            let n: PutResult<u32, f64> = PutResult::EvictedAndUpdate { evicted: (1, 1.0), update: nan };
            let m: PutResult<u32, f64> = PutResult::EvictedAndUpdate { evicted: (1, nan), update: 1.0 };
            (same(&n, &n) || same(&m, &m), "EvictedAndUpdate{.. NaN ..}")
        }
    };
    if refl_broken {
        world::report(
            "C12",
            "putresult_structural",
            format!("PutResult::{} compares equal to itself although its payload is not equal to itself (or a plain payload compares unequal)", what),
        );
    }
    // `K: Eq` is a user-code call point; keep this cheap and only for payload-free variants plus
    // a self comparison of the value payload (TV's PartialEq is not a call point).
    match r {
        PutResult::Put => {
            if !matches!(r, PutResult::Put) {
                world::report("C12", "putresult_structural", "Put != Put".into());
            }
        }
        PutResult::Update(v) => {
            let same: PutResult<u8, u64> = PutResult::Update(v.val);
            let other: PutResult<u8, u64> = PutResult::Update(v.val);
            let diff: PutResult<u8, u64> = PutResult::Update(v.val.wrapping_add(1));
            let copy = same; // Copy
            #[allow(clippy::clone_on_copy)]
            let cl = same.clone();
            if !(same == other) || same == diff || !(copy == same) || !(cl == same) || same == PutResult::Put {
                world::report(
                    "C12",
                    "putresult_structural",
                    format!("PartialEq/Clone/Copy of PutResult::Update({}) is not structural", v.val),
                );
            }
        }
        PutResult::Evicted { key, value } => {
            let (i, _, _) = key.raw();
            let a: PutResult<u32, u64> = PutResult::Evicted { key: i, value: value.val };
            let b: PutResult<u32, u64> = PutResult::Evicted { key: i, value: value.val };
            let dk: PutResult<u32, u64> = PutResult::Evicted { key: i ^ 1, value: value.val };
            let dv: PutResult<u32, u64> = PutResult::Evicted { key: i, value: value.val ^ 1 };
            let copy = a;
            #[allow(clippy::clone_on_copy)]
            let cl = a.clone();
            if !(a == b) || a == dk || a == dv || !(copy == a) || !(cl == a) || a == PutResult::Update(value.val) {
                world::report(
                    "C12",
                    "putresult_structural",
                    format!("PartialEq/Clone/Copy of PutResult::Evicted{{{},{}}} is not structural", i, value.val),
                );
            }
        }
        PutResult::EvictedAndUpdate { evicted, update } => {
            let (i, _, _) = evicted.0.raw();
            let mk = |k: u32, v: u64, u: u64| -> PutResult<u32, u64> {
                PutResult::EvictedAndUpdate { evicted: (k, v), update: u }
            };
            let a = mk(i, evicted.1.val, update.val);
            let copy = a;
            #[allow(clippy::clone_on_copy)]
            let cl = a.clone();
            if !(a == mk(i, evicted.1.val, update.val))
                || a == mk(i ^ 1, evicted.1.val, update.val)
                || a == mk(i, evicted.1.val ^ 1, update.val)
                || a == mk(i, evicted.1.val, update.val ^ 1)
                || !(copy == a)
                || !(cl == a)
            {
                world::report(
                    "C12",
                    "putresult_structural",
                    "PartialEq/Clone/Copy of PutResult::EvictedAndUpdate is not structural".into(),
                );
            }
        }
    }
}

pub fn opt_v(o: Option<&TV>) -> Val {
    match o {
        None => Val::None,
        Some(v) => Val::V(v.read()),
    }
}
/// Option<&mut V> with an optional write through the reference; reports the value *before* the write
pub fn opt_v_mut(o: Option<&mut TV>, w: u64) -> Val {
    match o {
        None => Val::None,
        Some(v) => {
            let old = v.read();
            if w != 0 {
                v.val = w;
            }
            Val::V(old)
        }
    }
}
pub fn opt_kv<K: SimKey>(o: Option<(&K, &TV)>) -> Val {
    match o {
        None => Val::None,
        Some((k, v)) => Val::KV(k.ident_checked("key (returned reference)"), v.read()),
    }
}
pub fn opt_kv_mut<K: SimKey>(o: Option<(&K, &mut TV)>, w: u64) -> Val {
    match o {
        None => Val::None,
        Some((k, v)) => {
            let old = v.read();
            if w != 0 {
                v.val = w;
            }
            Val::KV(k.ident_checked("key (returned reference)"), old)
        }
    }
}
pub fn owned_kv<K: SimKey>(o: Option<(K, TV)>) -> Val {
    match o {
        None => Val::None,
        Some((k, v)) => {
            let r = Val::KV(k.ident_checked("key (returned by value)"), v.read());
            crate::alloc::harness_scope(move || {
                drop(k);
                drop(v);
            });
            r
        }
    }
}
pub fn owned_v(o: Option<TV>) -> Val {
    match o {
        None => Val::None,
        Some(v) => {
            let r = Val::V(v.read());
            crate::alloc::harness_scope(move || drop(v));
            r
        }
    }
}

// ---- iterator driver (C14) -------------------------------------------------------------------

/// Drives a double-ended exact-size iterator with a next/next_back word. The result lists, per
/// step, the item and the size_hint/len after the step; then (optionally) what a clone taken at
/// `clone_at` yields when drained, and its count().
pub fn drive_iter<I, T>(
    mut it: I,
    word: &[u64],
    clone_at: i64,
    mut conv: impl FnMut(T) -> Val,
    cloner: Option<&dyn Fn(&I) -> I>,
) -> Val
where
    I: DoubleEndedIterator<Item = T> + ExactSizeIterator,
{
    let mut out: Vec<Val> = Vec::new();
    let mut cloned: Option<I> = None;
    let mut count_at_clone: i64 = -1;
    let sz = |it: &I| -> i64 {
        let (lo, hi) = it.size_hint();
        if hi != Some(lo) || it.len() != lo {
            -1
        } else {
            lo as i64
        }
    };
    out.push(Val::Num(sz(&it)));
    for (i, w) in word.iter().enumerate() {
        if clone_at == i as i64 {
            if let Some(c) = cloner {
                cloned = Some(c(&it));
                count_at_clone = c(&it).count() as i64;
            }
        }
        let item = if *w == 0 { lib!(it.next()) } else { lib!(it.next_back()) };
        let iv = match item {
            None => Val::None,
            Some(t) => conv(t),
        };
        out.push(Val::Pair(Box::new(iv), Box::new(Val::Num(sz(&it)))));
    }
    if let Some(mut c) = cloned {
        // drain the clone from both ends alternately (back first), so that both of its cursors
        // are exercised independently of the original's
        let mut rest = Vec::new();
        let mut back = true;
        loop {
            let item = if back { lib!(c.next_back()) } else { lib!(c.next()) };
            match item {
                None => break,
                Some(t) => rest.push(conv(t)),
            }
            back = !back;
            // (guard against an iterator that never ends: a little beyond what its clone counted)
            if rest.len() as i64 > count_at_clone.max(0) + 64 {
                break;
            }
        }
        out.push(Val::Str("clone".into()));
        out.push(Val::Num(count_at_clone));
        out.push(Val::List(rest));
    }
    Val::List(out)
}

pub fn unsupported() -> Val {
    Val::Unsupported
}
