//! Builds the subject described by a header, and says what C05 expects of that constructor call.
use super::lru::{FRs, FRsCb, FSim, FSimCb, FSimCbZ, LruSubj};
use super::*;
use crate::alpha::Kind;
use crate::hashers::SimBuildHasher;
use crate::keys::{SKey, SimKey, TK};

fn build_k<K: SimKey>(h: &Header) -> Result<Box<dyn Subject>, String> {
    fn b<T: Subject + 'static>(r: Result<T, String>) -> Result<Box<dyn Subject>, String> {
        r.map(|s| Box::new(s) as Box<dyn Subject>)
    }
    match (h.kind, h.random_state) {
        (Kind::Lru, false) => {
            if h.with_cb && h.ctor == 9 {
                b(LruSubj::<K, FSimCbZ>::construct(h))
            } else if h.with_cb {
                b(LruSubj::<K, FSimCb>::construct(h))
            } else {
                b(LruSubj::<K, FSim>::construct(h))
            }
        }
        (Kind::Lru, true) => {
            if h.with_cb {
                b(LruSubj::<K, FRsCb>::construct(h))
            } else {
                b(LruSubj::<K, FRs>::construct(h))
            }
        }
        (Kind::Slru, false) => b(slru::SlruSubj::<K, SimBuildHasher>::construct(h)),
        (Kind::Slru, true) => b(slru::construct_rs::<K>(h)),
        (Kind::TwoQ, false) => b(twoq::TwoQSubj::<K, SimBuildHasher>::construct(h)),
        (Kind::TwoQ, true) => b(twoq::construct_rs::<K>(h)),
        (Kind::Arc, false) => b(arc::ArcSubj::<K, SimBuildHasher>::construct(h)),
        (Kind::Arc, true) => b(arc::construct_rs::<K>(h)),
        (Kind::Wtlfu, false) => b(wtlfu::construct_sim::<K>(h)),
        (Kind::Wtlfu, true) => b(wtlfu::construct_rs::<K>(h)),
        (Kind::Tlfu, false) => b(tlfu::construct_sim::<K>(h)),
        (Kind::Tlfu, true) => b(tlfu::construct_rs::<K>(h)),
        (Kind::Sampled, false) => match h.ctor {
            0 => b(sampled::construct_sim::<K>(h)),
            1 | 2 => {
                let mut h2 = h.clone();
                h2.ctor -= 1;
                b(sampled::construct_hb::<K>(&h2))
            }
            _ => {
                let mut h2 = h.clone();
                h2.ctor -= 3;
                b(sampled::construct_kh::<K>(&h2))
            }
        },
        (Kind::Sampled, true) => b(sampled::construct_rs::<K>(h)),
    }
}

pub fn build(h: &Header) -> Result<Box<dyn Subject>, String> {
    match h.key_type.as_str() {
        "SKey" => build_k::<SKey>(h),
        _ => build_k::<TK>(h),
    }
}

/// What C05 says about this constructor call: Some(Ok) = documented as valid, Some(Err(why)) =
/// documented as invalid (must be rejected), None = the statement is silent (only "no panic").
pub fn expected_ctor(h: &Header) -> Option<Result<(), String>> {
    let bad_ratio = |r: f64| !(0.0..=1.0).contains(&r); // NaN included
    let bad_fp = |r: f64| !(r > 0.0 && r < 1.0);
    match h.kind {
        Kind::Lru => {
            if h.random_state && !h.with_cb && h.ctor >= 1 {
                // conversions (FromIterator / From<..>) are infallible by signature: only "no panic"
                return None;
            }
            Some(if h.sizes[0] == 0 { Err("capacity 0".into()) } else { Ok(()) })
        }
        Kind::Slru => Some(if h.sizes[0] == 0 || h.sizes[1] == 0 {
            Err("a segment size is 0".into())
        } else {
            Ok(())
        }),
        Kind::TwoQ => {
            if h.sizes[0] == 0 {
                return Some(Err("size 0".into()));
            }
            if bad_ratio(h.ratios[0]) {
                return Some(Err(format!("recent ratio {} outside [0,1]", h.ratios[0])));
            }
            if bad_ratio(h.ratios[1]) {
                return Some(Err(format!("ghost ratio {} outside [0,1]", h.ratios[1])));
            }
            // a ghost bound that floors to 0: the statement does not say; only "never panics"
            if ((h.sizes[0] as f64) * h.ratios[1]).floor() < 1.0 {
                return None;
            }
            Some(Ok(()))
        }
        Kind::Arc => Some(if h.sizes[0] == 0 { Err("size 0".into()) } else { Ok(()) }),
        Kind::Wtlfu => {
            if h.random_state && h.ctor != 0 {
                // WTinyLFUCache::new(size, samples): segment sizes are derived from size by
                // ratios the statements do not fix; only "never panics" and samples > 0 apply
                if h.samples == 0 {
                    return Some(Err("samples 0".into()));
                }
                return None;
            }
            if h.sizes[..3].iter().any(|s| *s == 0) {
                return Some(Err("a segment size is 0".into()));
            }
            if h.samples == 0 {
                return Some(Err("samples 0".into()));
            }
            if !h.random_state && bad_fp(h.ratios.first().copied().unwrap_or(0.01)) {
                return Some(Err(format!("false positive ratio {:?} outside (0,1)", h.ratios.first())));
            }
            Some(Ok(()))
        }
        Kind::Tlfu => {
            if h.sizes[0] == 0 {
                return Some(Err("size 0".into()));
            }
            if h.samples == 0 {
                return Some(Err("samples 0".into()));
            }
            if bad_fp(h.ratios.first().copied().unwrap_or(0.01)) {
                return Some(Err(format!("false positive ratio {:?} outside (0,1)", h.ratios.first())));
            }
            Some(Ok(()))
        }
        Kind::Sampled => Some(Ok(())),
    }
}

/// category of a constructor error, from its Debug text (CacheError's derived names; the LFU error
/// types are not nameable from outside the crate, so their messages are classified by keyword —
/// an unrecognised message is not judged)
pub fn error_category(msg: &str) -> Option<&'static str> {
    let m = msg.to_ascii_lowercase();
    if m.starts_with("invalidsize") {
        Some("size")
    } else if m.starts_with("invalidrecentratio") {
        Some("recent_ratio")
    } else if m.starts_with("invalidghostratio") {
        Some("ghost_ratio")
    } else if m.contains("false positive") {
        Some("fp")
    } else if m.contains("sample") {
        Some("samples")
    } else if m.contains("window") {
        Some("window")
    } else if m.contains("probationary") {
        Some("probationary")
    } else if m.contains("protected") {
        Some("protected")
    } else if m.contains("width") {
        Some("width")
    } else {
        None
    }
}

/// the categories of invalid arguments present in this constructor call (C05: "rejected with the
/// matching error")
pub fn invalid_categories(h: &Header) -> Vec<&'static str> {
    let bad_ratio = |r: f64| !(0.0..=1.0).contains(&r);
    let bad_fp = |r: f64| !(r > 0.0 && r < 1.0);
    let mut v = Vec::new();
    match h.kind {
        Kind::Lru | Kind::Arc => {
            if h.sizes[0] == 0 {
                v.push("size");
            }
        }
        Kind::Slru => {
            if h.sizes[0] == 0 || h.sizes[1] == 0 {
                v.push("size");
            }
        }
        Kind::TwoQ => {
            if h.sizes[0] == 0 {
                v.push("size");
            }
            if bad_ratio(h.ratios[0]) {
                v.push("recent_ratio");
            }
            if bad_ratio(h.ratios[1]) {
                v.push("ghost_ratio");
            }
            if !bad_ratio(h.ratios[1]) && ((h.sizes[0] as f64) * h.ratios[1]).floor() < 1.0 {
                v.push("size"); // ghost bound 0
            }
        }
        Kind::Wtlfu => {
            let derived = h.random_state && h.ctor != 0;
            if h.sizes[0] == 0 {
                v.push("window");
            }
            if h.sizes[1] == 0 {
                v.push("probationary");
            }
            if h.sizes[2] == 0 {
                v.push("protected");
            }
            if derived && !v.is_empty() {
                v = vec!["window", "probationary", "protected"];
            }
            if h.samples == 0 {
                v.push("samples");
            }
            if !h.random_state && bad_fp(h.ratios.first().copied().unwrap_or(0.01)) {
                v.push("fp");
            }
        }
        Kind::Tlfu => {
            if h.sizes[0] == 0 {
                v.push("width");
            }
            if h.samples == 0 {
                v.push("samples");
            }
            if bad_fp(h.ratios.first().copied().unwrap_or(0.01)) {
                v.push("fp");
            }
        }
        Kind::Sampled => {}
    }
    v
}
