//! WTinyLFUCache subject. header.sizes = [window, probationary, protected];
//! lists / hashers = [window, probationary, protected]
use super::*;
use crate::alpha::{snap_list, Alpha, Kind};
use crate::hashers::{SimBuildHasher, SimKeyHasher};
use crate::keys::{SimKey, TV};
use crate::ops::{Code, Op, Val};
use caches::lfu::{DefaultKeyHasher, KeyHasher};
use caches::{Cache, DefaultHashBuilder, WTinyLFUCache, WTinyLFUCacheBuilder};
use std::hash::BuildHasher;

pub struct WtlfuSubj<K: SimKey, KH: KeyHasher<K> + Clone + 'static, S: BuildHasher + Clone + 'static> {
    // type parameters: KH, FH (protected), RH (probationary), WH (window)
    pub c: Option<WTinyLFUCache<K, TV, KH, S, S, S>>,
}

pub fn construct_sim<K: SimKey>(h: &Header) -> Result<WtlfuSubj<K, SimKeyHasher, SimBuildHasher>, String> {
    let (cw, cp, cq) = (h.sizes[0], h.sizes[1], h.sizes[2]);
    let fp = h.ratios.first().copied().unwrap_or(0.01);
    let kh = SimKeyHasher::new(h.key_hasher);
    let r = match h.ctor {
        0 => lib!(WTinyLFUCacheBuilder::with_hashers(
            kh,
            SimBuildHasher::new(h.hashers[2]),
            SimBuildHasher::new(h.hashers[1]),
            SimBuildHasher::new(h.hashers[0]),
        )
        .set_window_cache_size(cw)
        .set_protected_cache_size(cq)
        .set_probationary_cache_size(cp)
        .set_samples(h.samples)
        .set_false_positive_ratio(fp)
        .finalize::<TV>()),
        1 => lib!(WTinyLFUCache::from_builder(
            WTinyLFUCacheBuilder::<K, SimKeyHasher, SimBuildHasher, SimBuildHasher, SimBuildHasher>::new(cw, cq, cp, h.samples)
                .set_key_hasher(kh)
                .set_window_hasher(SimBuildHasher::new(h.hashers[0]))
                .set_probationary_hasher(SimBuildHasher::new(h.hashers[1]))
                .set_protected_hasher(SimBuildHasher::new(h.hashers[2]))
                .set_false_positive_ratio(fp)
        )),
        // every size / samples setter in the reverse order, over different initial values
        2 => lib!(WTinyLFUCacheBuilder::<K, SimKeyHasher, SimBuildHasher, SimBuildHasher, SimBuildHasher>::new(cw + 1, cq + 2, cp + 3, h.samples + 1)
            .set_false_positive_ratio(fp)
            .set_samples(h.samples)
            .set_probationary_cache_size(cp)
            .set_protected_cache_size(cq)
            .set_window_cache_size(cw)
            .set_protected_hasher(SimBuildHasher::new(h.hashers[2]))
            .set_probationary_hasher(SimBuildHasher::new(h.hashers[1]))
            .set_window_hasher(SimBuildHasher::new(h.hashers[0]))
            .set_key_hasher(kh)
            .finalize::<TV>()),
        _ => return Err("bad ctor".into()),
    };
    r.map(|c| WtlfuSubj { c: Some(c) }).map_err(|e| format!("{:?}", e))
}

pub fn construct_rs<K: SimKey>(h: &Header) -> Result<WtlfuSubj<K, DefaultKeyHasher<K>, DefaultHashBuilder>, String> {
    let (cw, cp, cq) = (h.sizes[0], h.sizes[1], h.sizes[2]);
    let r = match h.ctor {
        0 => lib!(WTinyLFUCache::<K, TV>::with_sizes(cw, cq, cp, h.samples)),
        // `new(size, samples)`: header.sizes[3] carries the size argument
        _ => lib!(WTinyLFUCache::<K, TV>::new(h.sizes.get(3).copied().unwrap_or(0), h.samples)),
    };
    r.map(|c| WtlfuSubj { c: Some(c) }).map_err(|e| format!("{:?}", e))
}

impl<K: SimKey, KH: KeyHasher<K> + Clone + 'static, S: BuildHasher + Clone + 'static> Subject for WtlfuSubj<K, KH, S> {
    fn kind(&self) -> Kind {
        Kind::Wtlfu
    }
    fn apply(&mut self, op: &Op) -> Val {
        let c = match self.c.as_mut() {
            Some(c) => c,
            None => return Val::Unsupported,
        };
        use Code::*;
        match op.code {
            Put => {
                let (k, v) = (K::make(op.k), TV::new(op.v));
                put_res(lib!(c.put(k, v)))
            }
            Get => lookup!(K, op, c.get, |r| opt_v(r)),
            GetMut => lookup!(K, op, c.get_mut, |r| opt_v_mut(r, op.w)),
            Peek => lookup!(K, op, c.peek, |r| opt_v(r)),
            PeekMut => lookup!(K, op, c.peek_mut, |r| opt_v_mut(r, op.w)),
            Contains => lookup!(K, op, c.contains, |r| Val::Bool(r)),
            Remove => lookup!(K, op, c.remove, |r| owned_v(r)),
            Purge => {
                lib!(c.purge());
                Val::Unit
            }
            Len => Val::Num(lib!(c.len()) as i64),
            Cap => Val::Num(lib!(c.cap()) as i64),
            IsEmpty => Val::Bool(lib!(c.is_empty())),
            ListLen => Val::Num(if op.list == 0 { lib!(c.window_cache_len()) } else { lib!(c.main_cache_len()) } as i64),
            ListCap => Val::Num(if op.list == 0 { lib!(c.window_cache_cap()) } else { lib!(c.main_cache_cap()) } as i64),
            Rehash => {
                lib!(c.verif_rehash(op.list as usize));
                Val::Unit
            }
            _ => Val::Unsupported,
        }
    }
    fn snapshot(&self, relaxed: bool) -> Alpha {
        let c = self.c.as_ref().expect("snapshot of destroyed subject");
        let (w, main, t) = c.verif_parts();
        let (p, q) = main.verif_segments();
        Alpha {
            kind: Kind::Wtlfu,
            scalars: vec![w.cap() as i64, main.probationary_cap() as i64, main.protected_cap() as i64],
            lists: vec![snap_list(w, relaxed), snap_list(p, relaxed), snap_list(q, relaxed)],
            est: Some(t.verif_state()),
            sampled: None,
            pub_len: c.len(),
            pub_cap: c.cap(),
            pub_is_empty: c.is_empty(),
        }
    }
    fn fork(&self) -> Option<Box<dyn Subject>> {
        let c = self.c.as_ref()?;
        let d = lib!(c.clone());
        Some(Box::new(WtlfuSubj::<K, KH, S> { c: Some(d) }))
    }
    fn destroy(&mut self) {
        if let Some(c) = self.c.take() {
            lib!(drop(c));
        }
    }
    fn is_destroyed(&self) -> bool {
        self.c.is_none()
    }
    fn leak(&mut self) {
        if let Some(c) = self.c.take() {
            std::mem::forget(c);
        }
    }
    fn estimate(&self, ident: u32) -> Option<u64> {
        let c = self.c.as_ref()?;
        let (_, _, t) = c.verif_parts();
        Some(K::with_q(ident, |q| t.estimate(q)))
    }
    fn est_after(&self, script: &[EstStep], ident: u32) -> Option<caches::verif::TinyLFUState> {
        let c = self.c.as_ref()?;
        let (_, _, t) = c.verif_parts();
        let mut t2 = t.clone();
        for s in script {
            match s {
                EstStep::Inc => K::with_q(ident, |q| t2.increment(q)),
                EstStep::TryReset => t2.try_reset(),
                EstStep::Clear => t2.clear(),
            }
        }
        Some(t2.verif_state())
    }
}
