//! TinyLFU subject. header.sizes = [size]; ratios = [fp]; samples.
use super::*;
use crate::alpha::{Alpha, Kind};
use crate::hashers::SimKeyHasher;
use crate::keys::SimKey;
use crate::ops::{Code, Op, Val};
use caches::lfu::{DefaultKeyHasher, KeyHasher, TinyLFU};

pub struct TlfuSubj<K: SimKey, KH: KeyHasher<K> + Clone + 'static> {
    pub c: Option<TinyLFU<K, KH>>,
}

pub fn construct_sim<K: SimKey>(h: &Header) -> Result<TlfuSubj<K, SimKeyHasher>, String> {
    let fp = h.ratios.first().copied().unwrap_or(0.01);
    let kh = SimKeyHasher::new(h.key_hasher);
    // TinyLFUBuilder is crate-private; hook H7 runs the same builder path with our key hasher
    let r = lib!(TinyLFU::<K, SimKeyHasher>::verif_with_key_hasher(h.sizes[0], h.samples, fp, kh));
    r.map(|c| TlfuSubj { c: Some(c) }).map_err(|e| format!("{:?}", e))
}

pub fn construct_rs<K: SimKey>(h: &Header) -> Result<TlfuSubj<K, DefaultKeyHasher<K>>, String> {
    let fp = h.ratios.first().copied().unwrap_or(0.01);
    let r = lib!(TinyLFU::<K>::new(h.sizes[0], h.samples, fp));
    r.map(|c| TlfuSubj { c: Some(c) }).map_err(|e| format!("{:?}", e))
}

impl<K: SimKey, KH: KeyHasher<K> + Clone + 'static> Subject for TlfuSubj<K, KH> {
    fn kind(&self) -> Kind {
        Kind::Tlfu
    }
    fn apply(&mut self, op: &Op) -> Val {
        let c = match self.c.as_mut() {
            Some(c) => c,
            None => return Val::Unsupported,
        };
        use Code::*;
        match op.code {
            TInc => {
                lib!(c.increment_hashed_key(op.v));
                Val::Unit
            }
            TIncKey => {
                K::with_q(op.k, |q| lib!(c.increment(q)));
                Val::Unit
            }
            TIncHashes => {
                lib!(c.increment_hashed_keys(&op.xs));
                Val::Unit
            }
            TIncKeys => {
                // increment_keys takes &[&Q]: build owned keys and borrow them
                let keys: Vec<K> = op.xs.iter().map(|i| K::make(*i as u32)).collect();
                {
                    let refs: Vec<&K> = keys.iter().collect();
                    lib!(c.increment_keys::<K>(&refs[..]));
                }
                crate::alloc::harness_scope(move || drop(keys));
                Val::Unit
            }
            TTryReset => {
                lib!(c.try_reset());
                Val::Unit
            }
            TClear => {
                lib!(c.clear());
                Val::Unit
            }
            TEst => Val::Num(lib!(c.estimate_hashed_key(op.v)) as i64),
            TEstKey => Val::Num(K::with_q(op.k, |q| lib!(c.estimate(q))) as i64),
            TContains => Val::Bool(lib!(c.contains_hash(op.v))),
            TContainsKey => Val::Bool(K::with_q(op.k, |q| lib!(c.contains(q)))),
            TCmp => {
                let (a, b) = (K::make(op.k), K::make(op.k2));
                let r = match op.fam {
                    0 => lib!(c.eq::<K>(&a, &b)),
                    1 => lib!(c.le::<K>(&a, &b)),
                    2 => lib!(c.lt::<K>(&a, &b)),
                    3 => lib!(c.gt::<K>(&a, &b)),
                    _ => lib!(c.ge::<K>(&a, &b)),
                };
                crate::alloc::harness_scope(move || {
                    drop(a);
                    drop(b);
                });
                Val::Bool(r)
            }
            _ => Val::Unsupported,
        }
    }
    fn snapshot(&self, _relaxed: bool) -> Alpha {
        let c = self.c.as_ref().expect("snapshot of destroyed subject");
        Alpha {
            kind: Kind::Tlfu,
            scalars: vec![],
            lists: vec![],
            est: Some(c.verif_state()),
            sampled: None,
            pub_len: 0,
            pub_cap: 0,
            pub_is_empty: true,
        }
    }
    fn fork(&self) -> Option<Box<dyn Subject>> {
        let c = self.c.as_ref()?;
        let d = lib!(c.clone());
        Some(Box::new(TlfuSubj::<K, KH> { c: Some(d) }))
    }
    fn destroy(&mut self) {
        if let Some(c) = self.c.take() {
            lib!(drop(c));
        }
    }
    fn is_destroyed(&self) -> bool {
        self.c.is_none()
    }
    fn leak(&mut self) {
        if let Some(c) = self.c.take() {
            std::mem::forget(c);
        }
    }
    fn key_hash(&self, ident: u32) -> Option<u64> {
        let c = self.c.as_ref()?;
        Some(K::with_q(ident, |q| c.hash_key(q)))
    }
}
