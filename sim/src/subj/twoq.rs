//! TwoQueueCache subject. header.sizes = [size]; ratios = [recent, ghost]; hashers = [recent, frequent, ghost]
use super::*;
use crate::alpha::{snap_list, Alpha, Kind};
use crate::hashers::HB;
use crate::keys::{SimKey, TV};
use crate::ops::{Code, Op, Val};
use caches::{Cache, TwoQueueCache, TwoQueueCacheBuilder};

pub struct TwoQSubj<K: SimKey, S: HB> {
    pub c: Option<TwoQueueCache<K, TV, S, S, S>>,
}

impl<K: SimKey, S: HB> TwoQSubj<K, S> {
    pub fn construct(h: &Header) -> Result<Self, String> {
        let size = h.sizes[0];
        let (rr, gr) = (h.ratios[0], h.ratios[1]);
        // two setter orders, so that a setter that forgets to carry a field over is observable
        let r = match h.ctor {
            0 => lib!(TwoQueueCacheBuilder::new(size)
                .set_recent_ratio(rr)
                .set_ghost_ratio(gr)
                .set_recent_hasher(S::make(&h.hashers[0]))
                .set_frequent_hasher(S::make(&h.hashers[1]))
                .set_ghost_hasher(S::make(&h.hashers[2]))
                .finalize::<K, TV>()),
            _ => lib!(TwoQueueCache::from_builder(
                TwoQueueCacheBuilder::default()
                    .set_ghost_hasher(S::make(&h.hashers[2]))
                    .set_frequent_hasher(S::make(&h.hashers[1]))
                    .set_recent_hasher(S::make(&h.hashers[0]))
                    .set_ghost_ratio(gr)
                    .set_recent_ratio(rr)
                    .set_size(size)
            )),
        };
        r.map(|c| TwoQSubj { c: Some(c) }).map_err(|e| format!("{:?}", e))
    }
}

pub fn construct_rs<K: SimKey>(h: &Header) -> Result<TwoQSubj<K, caches::DefaultHashBuilder>, String> {
    let size = h.sizes[0];
    let (rr, gr) = (h.ratios[0], h.ratios[1]);
    let r = match h.ctor {
        0 => lib!(TwoQueueCache::<K, TV>::new(size)),
        1 => lib!(TwoQueueCache::<K, TV>::with_recent_ratio(size, rr)),
        2 => lib!(TwoQueueCache::<K, TV>::with_ghost_ratio(size, gr)),
        3 => lib!(TwoQueueCache::<K, TV>::with_2q_parameters(size, rr, gr)),
        _ => lib!(TwoQueueCache::<K, TV>::builder(size)
            .set_recent_ratio(rr)
            .set_ghost_ratio(gr)
            .finalize()),
    };
    r.map(|c| TwoQSubj { c: Some(c) }).map_err(|e| format!("{:?}", e))
}

impl<K: SimKey, S: HB> Subject for TwoQSubj<K, S> {
    fn kind(&self) -> Kind {
        Kind::TwoQ
    }
    fn apply(&mut self, op: &Op) -> Val {
        let c = match self.c.as_mut() {
            Some(c) => c,
            None => return Val::Unsupported,
        };
        use Code::*;
        match op.code {
            Put => {
                let (k, v) = (K::make(op.k), TV::new(op.v));
                put_res(lib!(c.put(k, v)))
            }
            Get => lookup!(K, op, c.get, |r| opt_v(r)),
            GetMut => lookup!(K, op, c.get_mut, |r| opt_v_mut(r, op.w)),
            Peek => lookup!(K, op, c.peek, |r| opt_v(r)),
            PeekMut => lookup!(K, op, c.peek_mut, |r| opt_v_mut(r, op.w)),
            Contains => lookup!(K, op, c.contains, |r| Val::Bool(r)),
            Remove => lookup!(K, op, c.remove, |r| owned_v(r)),
            Purge => {
                lib!(c.purge());
                Val::Unit
            }
            Len => Val::Num(lib!(c.len()) as i64),
            Cap => Val::Num(lib!(c.cap()) as i64),
            IsEmpty => Val::Bool(lib!(c.is_empty())),
            ListLen => Val::Num(match op.list {
                0 => lib!(c.recent_len()),
                1 => lib!(c.frequent_len()),
                _ => lib!(c.ghost_len()),
            } as i64),
            Debug => {
                let s = lib!(format!("{:?}", c));
                crate::alloc::harness_scope(move || drop(s));
                Val::Unit
            }
            Rehash => {
                lib!(c.verif_rehash(op.list as usize));
                Val::Unit
            }
            Iter => match op.list {
                0 => iter_fams!(
                    K, op,
                    c.recent_iter(), c.recent_iter_lru(), c.recent_iter_mut(), c.recent_iter_lru_mut(),
                    c.recent_keys(), c.recent_keys_lru(), c.recent_values(), c.recent_values_lru(),
                    c.recent_values_mut(), c.recent_values_lru_mut()
                ),
                1 => iter_fams!(
                    K, op,
                    c.frequent_iter(), c.frequent_iter_lru(), c.frequent_iter_mut(), c.frequent_iter_lru_mut(),
                    c.frequent_keys(), c.frequent_keys_lru(), c.frequent_values(), c.frequent_values_lru(),
                    c.frequent_values_mut(), c.frequent_values_lru_mut()
                ),
                _ => iter_fams!(
                    K, op,
                    c.ghost_iter(), c.ghost_iter_lru(), c.ghost_iter_mut(), c.ghost_iter_lru_mut(),
                    c.ghost_keys(), c.ghost_keys_lru(), c.ghost_values(), c.ghost_values_lru(),
                    c.ghost_values_mut(), c.ghost_values_lru_mut()
                ),
            },
            _ => Val::Unsupported,
        }
    }
    fn snapshot(&self, relaxed: bool) -> Alpha {
        let c = self.c.as_ref().expect("snapshot of destroyed subject");
        let (r, f, g) = c.verif_lists();
        let gl = snap_list(g, relaxed);
        Alpha {
            kind: Kind::TwoQ,
            scalars: vec![c.cap() as i64, c.verif_recent_quota() as i64, gl.cap as i64],
            lists: vec![snap_list(r, relaxed), snap_list(f, relaxed), gl],
            est: None,
            sampled: None,
            pub_len: c.len(),
            pub_cap: c.cap(),
            pub_is_empty: c.is_empty(),
        }
    }
    fn iter_probe(&self, list: usize) -> Option<(Vec<(u32, u64)>, Vec<(u32, u64)>, usize)> {
        let c = self.c.as_ref()?;
        let cv = |(k, v): (&K, &TV)| (k.raw().0, v.val);
        Some(match list {
            0 => (lib!(c.recent_iter()).map(cv).collect(), lib!(c.recent_iter()).rev().map(cv).collect(), c.recent_len()),
            1 => (lib!(c.frequent_iter()).map(cv).collect(), lib!(c.frequent_iter()).rev().map(cv).collect(), c.frequent_len()),
            _ => (lib!(c.ghost_iter()).map(cv).collect(), lib!(c.ghost_iter()).rev().map(cv).collect(), c.ghost_len()),
        })
    }
    fn fork(&self) -> Option<Box<dyn Subject>> {
        None
    }
    fn destroy(&mut self) {
        if let Some(c) = self.c.take() {
            lib!(drop(c));
        }
    }
    fn is_destroyed(&self) -> bool {
        self.c.is_none()
    }
    fn leak(&mut self) {
        if let Some(c) = self.c.take() {
            std::mem::forget(c);
        }
    }
}
