#!/usr/bin/env bash
# tools/try_mutant.sh <patch.diff> <prop> [<prop> ...]
# Applies the patch to /repo, runs the registered quick check (`./check <prop> quick`, which
# rebuilds every flavour from /repo's working tree) of each property with evidence and replays
# redirected to a scratch directory, prints one line per property (DETECTED / missed + first
# DETAIL), and reverts /repo. SERIES=1: the caller rebuilds the simulator for the reverted tree.
set -u
PATCH="$1"; shift
cd /verif
if ! git -C /repo diff --quiet; then echo "ERROR /repo has uncommitted changes"; exit 2; fi
if ! git -C /repo apply "$PATCH"; then echo "ERROR patch does not apply: $PATCH"; exit 2; fi
trap 'git -C /repo checkout -- . ; git -C /repo clean -fdq -- tests 2>/dev/null' EXIT
SCR=$(mktemp -d /tmp/mutrep.XXXXXX)
export VERIF_EVIDENCE_DIR="$SCR/evidence" VERIF_REPLAY_DIR="$SCR/replays"
for p in "$@"; do
  out=$(timeout 1500 ./check "$p" "${TIER:-quick}" 2>&1)
  rc=$?
  if [ $rc -eq 1 ]; then
    echo "DETECTED $p :: $(echo "$out" | grep -m1 '^DETAIL' | cut -c1-260)"
  elif [ $rc -eq 0 ]; then
    echo "missed   $p :: $(echo "$out" | grep '^SUMMARY' | head -1 | cut -c1-120) $(echo "$out" | grep -c '^INFO other') other-prop infos"
    echo "$out" | grep '^INFO other' | head -4
  else
    echo "ERROR($rc) $p :: $(echo "$out" | grep -E 'HARNESS|UNCONF|error' | head -2 | tr '\n' ' ')"
  fi
done
rm -rf "$SCR"
git -C /repo checkout -- .
# leave binaries that match the reverted tree behind
if [ "${SERIES:-0}" != "1" ]; then ./check --build >/dev/null 2>&1; fi
