#!/usr/bin/env bash
# tools/try_mutant.sh <patch.diff> <prop> [<prop> ...]
# Applies the patch to /repo, rebuilds the simulator, runs the quick check of each property,
# prints one line per property (DETECTED / missed + first DETAIL), and reverts /repo.
set -u
PATCH="$1"; shift
cd /verif
if ! git -C /repo diff --quiet; then echo "ERROR /repo has uncommitted changes"; exit 2; fi
if ! git -C /repo apply "$PATCH"; then echo "ERROR patch does not apply: $PATCH"; exit 2; fi
trap 'git -C /repo checkout -- . ; git -C /repo clean -fdq -- tests 2>/dev/null' EXIT
REPL=$(mktemp -d /tmp/mutrep.XXXXXX)
build_ok=1
( cd sim && cargo build --release --offline ) >/tmp/mut-build.log 2>&1 || build_ok=0
if [ $build_ok -eq 0 ]; then echo "BUILD-FAILED $(tail -3 /tmp/mut-build.log | tr '\n' ' ')"; exit 2; fi
if [ "${NOSTD:-0}" = "1" ]; then
  ( cd sim && cargo build --release --offline --no-default-features --features flavor-nostd --target-dir /verif/sim/target-nostd ) >/tmp/mut-build.log 2>&1 || { echo "BUILD-FAILED(nostd)"; exit 2; }
fi
for p in "$@"; do
  BIN=./sim/target/release/cachesim
  [ "${NOSTD:-0}" = "1" ] && BIN=./sim/target-nostd/release/cachesim
  out=$(timeout 900 $BIN check --prop "$p" --tier "${TIER:-quick}" --replays "$REPL" --known /verif/known_findings.json ${RUNS:+--runs $RUNS} 2>&1)
  rc=$?
  if [ $rc -eq 1 ]; then
    echo "DETECTED $p :: $(echo "$out" | grep -m1 '^DETAIL' | cut -c1-260)"
  elif [ $rc -eq 0 ]; then
    echo "missed   $p :: $(echo "$out" | grep '^SUMMARY' | cut -c1-120) $(echo "$out" | grep -c '^INFO other') other-prop infos"
    echo "$out" | grep '^INFO other' | head -4
  else
    echo "ERROR($rc) $p :: $(echo "$out" | grep -E 'HARNESS|UNCONF' | head -2 | tr '\n' ' ')"
  fi
done
rm -rf "$REPL"
# leave a binary that matches the reverted tree behind
git -C /repo checkout -- . ; ( cd sim && cargo build --release --offline ) >/dev/null 2>&1
if [ "${NOSTD:-0}" = "1" ]; then ( cd sim && cargo build --release --offline --no-default-features --features flavor-nostd --target-dir /verif/sim/target-nostd ) >/dev/null 2>&1; fi
