#!/usr/bin/env python3
"""Runs the quick check of the target property against every seeded change (applied to /repo,
reverted afterwards) and records which check caught it."""
import subprocess, json, os, sys, glob
ids=sys.argv[1:] or sorted(os.path.basename(p) for p in glob.glob('/verif/seeded/C*'))
extra={'C01-i':['C08'],'C05-a':['C11'],'C01-b':['C16'],'C03-a':['C04','C07'],'C18-a':['C03'],'C18-b':['C03'],'C17-b':['C05'],'C01-c':['C15','C18'],'C01-e':['C08'],'C02-d':['C18','C15'],'C04-c':['C18','C15'],'C05-e':['C18','C15'],'C06-d':['C18'],'C14-e':['C18','C15'],'C03-c':['C18','C15'],'C20-c':['C05'],'C08-d':['C02','C12'],'C09-e':['C02','C12'],'C17-c':['C15'],'C17-d':['C08','C01'],'C15-e':['C17'],'C04-d':['C09'],'C13-d':['C08'],'C10-c':['C13'],'C07-n':['C01','C05'],'C10-p':['C01','C05'],'C10-q':['C11']}
for sid in ids:
    d=f'/verif/seeded/{sid}'
    meta=json.load(open(f'{d}/meta.json'))
    prop=sid.split('-')[0]
    props=[prop]+extra.get(sid,[])
    env=dict(os.environ); env['SERIES']='1'
    r=subprocess.run(['/verif/tools/try_mutant.sh',f'{d}/patch.diff']+props,capture_output=True,text=True,env=env)
    lines=[l for l in r.stdout.strip().split('\n') if l.startswith(('DETECTED','missed','ERROR','BUILD'))]
    meta['checked']={'command':(('CACHESIM_FLAVOURS='+os.environ['CACHESIM_FLAVOURS']+' (first flavour that reports is enough) ') if os.environ.get('CACHESIM_FLAVOURS') else '')+'tools/try_mutant.sh patch.diff '+' '.join(props)+' (git -C /repo apply; ./check <P> quick; git -C /repo checkout -- .)','results':lines}
    meta['detected']=any(l.startswith('DETECTED '+prop) for l in lines)
    meta['detected_by']=[l.split()[1] for l in lines if l.startswith('DETECTED')]
    json.dump(meta,open(f'{d}/meta.json','w'),indent=1)
    print('==',sid, 'DETECTED' if meta['detected'] else 'MISSED', '|', meta.get('summary','')[:110])
    for l in lines: print('   ',l[:300])
    sys.stdout.flush()

subprocess.run(['/verif/check','--build'],capture_output=True)
