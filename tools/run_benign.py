#!/usr/bin/env python3
"""Runs the relevant quick checks against every property-preserving refactor of /verif/benign
(applied to /repo, reverted afterwards) and records the outcome in benign/index.json: every line
must be `missed` (= the check stayed silent)."""
import subprocess, json, os
idx=json.load(open('/verif/benign/index.json'))
env=dict(os.environ); env['SERIES']='1'
for e in idx:
    r=subprocess.run(['/verif/tools/try_mutant.sh',f"/verif/benign/{e['id']}.diff"]+e['props'],capture_output=True,text=True,env=env)
    lines=[l for l in r.stdout.strip().split('\n') if l.startswith(('DETECTED','missed','ERROR','BUILD'))]
    e['lines']=lines
    e['result']='silent' if lines and all(l.startswith('missed') for l in lines) else 'ALARM'
    print(e['id'], e['result'], flush=True)
    for l in lines:
        if not l.startswith('missed'): print('   ',l[:300], flush=True)
    json.dump(idx,open('/verif/benign/index.json','w'),indent=1)
subprocess.run(['/verif/check','--build'],capture_output=True)
