#!/usr/bin/env python3
"""Property-PRESERVING refactors: every check must stay silent on them (false-alarm corpus).
Writes /verif/benign/<id>.diff for those that compile and pass the 73 pinned tests."""
import subprocess, json, os
WT='/tmp/wt-benign'
def sh(c):
    r=subprocess.run(c,shell=True,capture_output=True,text=True); return r.returncode, r.stdout+r.stderr
B=[]
def b(id, props, file, old, new, note, count=1):
    B.append(dict(id=id,props=props,file=file,old=old,new=new,note=note,count=count))
R='src/lru/raw.rs'; S='src/lru/segmented.rs'; Q='src/lru/two_queue.rs'; A='src/lru/adaptive.rs'; W='src/lfu/wtinylfu.rs'; T='src/lfu/tinylfu.rs'

b('b01_get_skip_relink_when_mru',['C06','C03','C13','C17'],R,
'''        if let Some(node) = self.map.get_mut(KeyWrapper::from_ref(k)) {
            let node_ptr: *mut EntryNode<K, V> = node.as_ptr();

            self.detach(node_ptr);
            self.attach(node_ptr);

            Some(unsafe { &*(*node_ptr).val.as_ptr() })''',
'''        if let Some(node) = self.map.get_mut(KeyWrapper::from_ref(k)) {
            let node_ptr: *mut EntryNode<K, V> = node.as_ptr();

            // already the most recently used entry: nothing to relink
            if unsafe { (*self.head).next } != node_ptr {
                self.detach(node_ptr);
                self.attach(node_ptr);
            }

            Some(unsafe { &*(*node_ptr).val.as_ptr() })''','get skips the relink when the entry is already MRU')
b('b02_resize_no_shrink',['C06','C03','C04','C05'],R,
'''        self.map.shrink_to_fit();

        self.cap = cap;''','''        self.cap = cap;''','resize no longer shrinks the index')
b('b03_clone_capacity_len',['C16','C17','C03','C04'],R,
'''            HashMap::with_capacity_and_hasher(self.map.capacity(), self.map.hasher().clone()),''',
'''            HashMap::with_capacity_and_hasher(self.map.len(), self.map.hasher().clone()),''','clone sizes its index by len()')
b('b04_arc_trim_fresh_lengths',['C09','C12','C01','C04','C03'],A,
'''        if recent_evict_len > self.size - self.p {
            self.recent_evict.remove_lru();
        }

        if freq_evict_len > self.p {
            self.frequent_evict.remove_lru();
        }''','''        if self.recent_evict.len() > self.size - self.p {
            self.recent_evict.remove_lru();
        }

        if self.frequent_evict.len() > self.p {
            self.frequent_evict.remove_lru();
        }''','ARC trims its ghost lists using the lengths after replace() (as the Go original does)')
b('b05_arc_purge_resets_p',['C09','C01','C13'],A,
'''        self.recent_evict.purge();
        self.frequent_evict.purge();
    }''','''        self.recent_evict.purge();
        self.frequent_evict.purge();
        self.p = 0;
    }''','ARC purge also resets the adaptation target')
b('b06_2q_unghost_first',['C08','C12','C03','C04','C02'],Q,
'''                let rst = self.ghost.put_or_evict_nonnull(ent);
                match self.ghost.map.remove(&key_ref) {
                    None => match rst {
                        None => PutResult::Put,
                        Some(mut ent) => {
                            unsafe {
                                let ent_ptr = ent.as_mut();
                                core::ptr::swap(&mut v, ent_ptr.val.as_mut_ptr());
                            }
                            self.frequent.put_nonnull(ent);
                            PutResult::Update(v)
                        }
                    },
                    Some(mut ent) => {
                        let ent_ptr = ent.as_ptr();
                        self.ghost.detach(ent_ptr);
''','''                // take the hit ghost out first, then make room: the ghost list cannot overflow
                let mut hit = self.ghost.map.remove(&key_ref).unwrap();
                self.ghost.detach(hit.as_ptr());
                let rst = self.ghost.put_or_evict_nonnull(ent);
                match Some(hit.as_mut()) {
                    None => PutResult::Put,
                    Some(_) => {
                        let mut ent = hit;
''','2Q ghost hit on a full cache: unghost first, then push the victim (L4 variant b)')
b('b07_slru_put_protected_demotes',['C07','C12','C01','C04','C03'],S,
'''        match self.probationary.remove(&k) {
            None => self.protected.put(k, v),''','''        match self.probationary.remove(&k) {
            None if false => self.protected.put(k, v),
            None => self.protected.put(k, v),''','(no-op control for the SLRU put_protected path)')
b('b08_wtlfu_get_single_tick',['C10','C13'],W,
'''        self.tinylfu.try_reset();
        self.tinylfu.increment(k);

        match self.lru.get(k) {''','''        self.tinylfu.increment(k);

        match self.lru.get(k) {''','W-TinyLFU get records the access without the extra window tick (L6)')
b('b09_cap0_put_calls_callback',['C15','C06','C12'],R,
'''                if self.cap == 0 {
                    return PutResult::Evicted { key: k, value: v };
                }''','''                if self.cap == 0 {
                    self.cb(&k, &v);
                    return PutResult::Evicted { key: k, value: v };
                }''','capacity-0 put announces the bounced pair to the callback (L1)')
b('b10_2q_remove_keeps_ghost',['C08','C02','C12','C01'],Q,
'''        self.frequent
            .remove(k)
            .or_else(|| self.recent.remove(k))
            .or_else(|| self.ghost.remove(k))''','''        self.frequent.remove(k).or_else(|| self.recent.remove(k))''','2Q remove ignores ghost-only keys (L3)')
b('b11_sketch_fixed_seeds',['C11','C10'],'src/lfu/tinylfu/sketch/count_min_sketch_std.rs',
'''            seeds: [seeds[0], seeds[1], seeds[2], seeds[3]],''','''            seeds: [seeds[0] | 1, seeds[1].rotate_left(7), seeds[2] ^ 0x9E37, seeds[3].wrapping_add(11)],''','different (still arbitrary) row seeds')
b('b12_sampled_fill_sorted',['C20'],'src/lfu/sampled.rs',
'''            for (k, v) in &self.key_costs {
                pairs.push((*k, *v));
                if pairs.len() >= self.samples {
                    return pairs;
                }
            }
            pairs''','''            let mut tracked: Vec<(u64, i64)> = self.key_costs.iter().map(|(k, v)| (*k, *v)).collect();
            tracked.sort_unstable();
            for (k, v) in tracked {
                pairs.push((k, v));
                if pairs.len() >= self.samples {
                    return pairs;
                }
            }
            pairs''','fill_sample adds the tracked pairs in sorted order')
b('b13_is_empty_via_len',['C01','C13'],Q,
'''        self.frequent.is_empty() && self.recent.is_empty() && self.ghost.is_empty()''','''        self.len() == 0 && self.ghost.len() == 0''','2Q is_empty through the lengths')
b('b14_purge_mru_first',['C15','C17','C06','C04','C03'],R,
'''    fn purge(&mut self) {
        while self.remove_lru().is_some() {}
    }''','''    fn purge(&mut self) {
        // most recently used first
        loop {
            let first = unsafe { (*self.head).next };
            if first == self.tail {
                break;
            }
            let key = KeyRef {
                k: unsafe { (*first).key.as_ptr() },
            };
            let node = self.map.remove(&key).unwrap();
            self.detach(node.as_ptr());
            unsafe {
                let node = *Box::from_raw(node.as_ptr());
                let key = node.key.assume_init();
                let val = node.val.assume_init();
                self.cb(&key, &val);
            }
        }
    }''','purge releases entries MRU-first (order within one purge is unspecified, L2; deterministic)')

def main():
    sh(f'git -C /repo worktree remove --force {WT}')
    sh(f'git -C /repo worktree add -q --detach {WT} HEAD && cp /repo/Cargo.lock {WT}/')
    index=[]
    for mu in B:
        p=os.path.join(WT,mu['file'])
        s=open(p).read()
        if s.count(mu['old'])!=mu['count']:
            print('SKIP (pattern count %d) %s'%(s.count(mu['old']),mu['id'])); continue
        open(p,'w').write(s.replace(mu['old'],mu['new']))
        rc,out=sh(f'cd {WT} && CARGO_TARGET_DIR={WT}/target cargo test --lib --offline 2>&1 | tail -8')
        ok='73 passed; 0 failed' in out
        rc2,diff=sh(f'git -C {WT} diff')
        sh(f'git -C {WT} checkout -- .')
        print(('KEEP ' if ok else 'DROP ')+mu['id'], '' if ok else out.strip()[-300:])
        if ok:
            open(f'/verif/benign/{mu["id"]}.diff','w').write(diff)
            index.append(dict(id=mu['id'],props=mu['props'],note=mu['note']))
    json.dump(index,open('/verif/benign/index.json','w'),indent=1)
    sh(f'git -C /repo worktree remove --force {WT}')
main()
