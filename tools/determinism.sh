#!/usr/bin/env bash
# Determinism proof: every property, N seeds, executed twice each in separate processes, with
# different slicing (1, 4, 16 worker processes) and in the flavours named (std nostd big); per-run digests of the full
# per-event logs are diffed. Prints DETERMINISTIC or the first diverging run.
set -u
cd /verif
N="${1:-2000}"
PROPS="${2:-C01 C02 C03 C04 C05 C06 C07 C08 C09 C10 C11 C12 C13 C14 C15 C16 C17 C18 C20}"
FLAVS="${3:-std nostd}"
rc=0
for flav in $FLAVS; do
  if [ "$flav" = "std" ]; then BIN=sim/target/release/cachesim; elif [ "$flav" = "big" ]; then BIN=sim/target-big/release/cachesim; else BIN=sim/target-nostd/release/cachesim; fi
  for p in $PROPS; do
    n=$N; [ "$p" = "C18" ] && n=$((N/20+1))
    d=$(mktemp -d /tmp/det.XXXXXX)
    # pass 1: one process
    $BIN digest --prop $p --seed ${VERIF_SEED:-1} --from 0 --to $n --per-run 2>/dev/null | grep -v '^digest' > $d/a
    # pass 2: four processes, concatenated
    q=$((n/4))
    for i in 0 1 2 3; do
      to=$(( (i+1)*q )); [ $i -eq 3 ] && to=$n
      $BIN digest --prop $p --seed ${VERIF_SEED:-1} --from $((i*q)) --to $to --per-run 2>/dev/null | grep -v '^digest' > $d/b$i &
    done
    wait
    cat $d/b0 $d/b1 $d/b2 $d/b3 > $d/b
    # pass 3: sixteen processes
    q=$((n/16+1))
    for i in $(seq 0 15); do
      fr=$((i*q)); to=$(( (i+1)*q )); [ $to -gt $n ] && to=$n; [ $fr -ge $n ] && { : > $d/c$i; continue; }
      $BIN digest --prop $p --seed ${VERIF_SEED:-1} --from $fr --to $to --per-run 2>/dev/null | grep -v '^digest' > $d/c$i &
    done
    wait
    cat $(for i in $(seq 0 15); do echo $d/c$i; done) > $d/c
    if cmp -s $d/a $d/b && cmp -s $d/a $d/c && [ -s $d/a ]; then
      echo "DETERMINISTIC $flav $p runs=$n digest=$(md5sum < $d/a | cut -c1-12)"
    else
      echo "DIVERGES $flav $p: $(diff $d/a $d/b | head -2 | tr '\n' ' ') $(diff $d/a $d/c | head -2 | tr '\n' ' ')"
      rc=1
    fi
    rm -rf $d
  done
done
exit $rc
