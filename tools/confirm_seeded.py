#!/usr/bin/env python3
"""Confirms each sub-agent mutant in its scratch worktree (73 lib tests pass with the change, the
demo fails with it and passes without it) and copies confirmed ones to /verif/seeded/<id>/."""
import subprocess, json, os, sys, shutil, glob
def sh(c):
    r=subprocess.run(c,shell=True,capture_output=True,text=True); return r.returncode, r.stdout+r.stderr
PFX=os.environ.get('WT_PREFIX','/tmp/wt-')
MUTS=os.environ.get('MUTS','mutant_a,mutant_b').split(',')
props=sys.argv[1:] or [os.path.basename(p)[len(os.path.basename(PFX)):] for p in sorted(glob.glob(PFX+'C*'))]
for p in props:
    wt=f'{PFX}{p}'
    for mu in MUTS:
        d=f'{wt}/SEEDED/{mu}'
        if not os.path.exists(f'{d}/patch.diff'): print(p,mu,'MISSING'); continue
        env=f'cd {wt} && export CARGO_TARGET_DIR={wt}/target && '
        sh(env+'git checkout -- . && rm -f tests/demo.rs')
        rc,out=sh(env+f'git apply {d}/patch.diff')
        if rc!=0: print(p,mu,'PATCH-FAILS',out[:200]); continue
        rc,out=sh(env+'cargo test --lib --offline 2>&1 | tail -4')
        lib_ok='73 passed; 0 failed' in out
        os.makedirs(f'{wt}/tests',exist_ok=True); shutil.copy(f'{d}/demo.rs',f'{wt}/tests/demo.rs')
        feat=''
        try:
            if json.load(open(f'{d}/meta.json')).get('no_std_only'): feat=' --no-default-features --features hashbrown,libm'
        except Exception: pass
        rc1,out1=sh(env+f'cargo test --test demo --offline{feat} 2>&1 | tail -6')
        fails_with = ('test result: FAILED' in out1) or ('error: test failed' in out1)
        sh(env+'git checkout -- src')
        rc2,out2=sh(env+f'cargo test --test demo --offline{feat} 2>&1 | tail -6')
        passes_without = ('test result: ok' in out2) and ('FAILED' not in out2)
        sh(env+'rm -rf tests; git checkout -- .')
        ok = lib_ok and fails_with and passes_without
        print(p,mu,'CONFIRMED' if ok else f'REJECTED lib_ok={lib_ok} fails_with={fails_with} passes_without={passes_without}', flush=True)
        if ok:
            sid=f'{p[:3]}-{mu[-1]}{p[3:]}'
            dst=f'/verif/seeded/{sid}'
            os.makedirs(dst,exist_ok=True)
            shutil.copy(f'{d}/patch.diff',dst); shutil.copy(f'{d}/demo.rs',dst)
            try: meta=json.load(open(f'{d}/meta.json'))
            except Exception: meta={'property':p}
            meta['confirmed_by_main']={'lib_tests_with_change':'73 passed; 0 failed','demo_with_change':'FAILED','demo_without_change':'ok',
              'commands':'git apply patch.diff; cargo test --lib --offline; cp demo.rs tests/demo.rs; cargo test --test demo --offline (fails); git checkout -- src; cargo test --test demo --offline (passes)'}
            json.dump(meta,open(f'{dst}/meta.json','w'),indent=1)
