#!/usr/bin/env python3
"""Builds the hand-written mutant corpus: each mutant is (id, props, file, old, new, note).
Writes /verif/mutants/<id>.diff for those that compile and pass the 73 pinned unit tests in a
scratch worktree (/tmp/wt-mine), and /verif/mutants/index.json."""
import subprocess, json, os, sys
WT='/tmp/wt-mine'
def sh(c, **kw):
    r=subprocess.run(c,shell=True,capture_output=True,text=True,**kw); return r.returncode, r.stdout+r.stderr
M=[]
def m(id, props, file, old, new, note, count=1):
    M.append(dict(id=id,props=props,file=file,old=old,new=new,note=note,count=count))

R='src/lru/raw.rs'; S='src/lru/segmented.rs'; Q='src/lru/two_queue.rs'; A='src/lru/adaptive.rs'; W='src/lfu/wtinylfu.rs'; T='src/lfu/tinylfu.rs'
m('m01_peek_mut_promotes',['C06','C13'],R,
'''        match self.map.get_mut(KeyWrapper::from_ref(k)) {
            None => None,
            Some(node) => Some(unsafe { &mut *(*node.as_ptr()).val.as_mut_ptr() }),
        }
    }

    #[inline]
    fn contains<Q>''','''        match self.map.get_mut(KeyWrapper::from_ref(k)) {
            None => None,
            Some(node) => {
                let p = node.as_ptr();
                self.detach(p);
                self.attach(p);
                Some(unsafe { &mut *(*p).val.as_mut_ptr() })
            }
        }
    }

    #[inline]
    fn contains<Q>''','peek_mut promotes the entry')
m('m02_get_lru_no_promote',['C06'],R,
'''            let node = (*self.tail).prev;
            self.detach(node);
            self.attach(node);

            let val = &(*(*node).val.as_ptr()) as &V;''','''            let node = (*self.tail).prev;

            let val = &(*(*node).val.as_ptr()) as &V;''','get_lru no longer counts as a use')
m('m03_put_nonnull_gt',['C01','C07','C08','C10'],R,
'''    pub(crate) fn put_nonnull(&mut self, bks: NonNull<EntryNode<K, V>>) -> PutResult<K, V> {
        if self.len() >= self.cap() {''','''    pub(crate) fn put_nonnull(&mut self, bks: NonNull<EntryNode<K, V>>) -> PutResult<K, V> {
        if self.len() > self.cap() {''','put_nonnull admits one entry too many')
m('m04_resize_off_by_one',['C06','C01'],R,
'''        while self.map.len() > cap {
            self.remove_lru();''','''        while self.map.len() > cap + 1 {
            self.remove_lru();''','resize keeps one entry too many')
m('m05_update_no_move',['C06','C07'],R,
'''                mem::swap(&mut v, node_ref);
                let _ = node_ref;

                self.detach(node_ptr);
                self.attach(node_ptr);
                PutResult::Update(v)''','''                mem::swap(&mut v, node_ref);
                let _ = node_ref;

                PutResult::Update(v)''','put on an existing key does not refresh recency')
m('m06_evicted_payload_new_key',['C12','C02'],R,
'''                let node = *Box::from_raw(node.as_ptr());
                PutResult::Evicted {
                    key: node.key.assume_init(),
                    value: node.val.assume_init(),
                }''','''                let node = *Box::from_raw(node.as_ptr());
                let (k, v) = (node.key.assume_init(), node.val.assume_init());
                let _ = &k;
                PutResult::Evicted { key: k, value: v }''','(no-op control: must NOT be detected)')
m('m07_cb_skipped_in_remove',['C15'],R,
'''                let val = node.val.assume_init();
                self.cb(&*node.key.as_ptr(), &val);
                ptr::drop_in_place(node.key.assume_init_mut());''','''                let val = node.val.assume_init();
                ptr::drop_in_place(node.key.assume_init_mut());''','remove does not invoke the eviction callback')
m('m08_cb_on_update',['C15'],R,
'''                self.detach(node_ptr);
                self.attach(node_ptr);
                PutResult::Update(v)''','''                self.detach(node_ptr);
                self.attach(node_ptr);
                self.cb(&k, &v);
                PutResult::Update(v)''','callback also fires on update')
m('m09_cb_after_key_drop',['C18','C15','C03'],R,
'''                let val = node.val.assume_init();
                self.cb(&*node.key.as_ptr(), &val);
                ptr::drop_in_place(node.key.assume_init_mut());
                Some(val)''','''                let val = node.val.assume_init();
                ptr::drop_in_place(node.key.assume_init_mut());
                self.cb(&*node.key.as_ptr(), &val);
                Some(val)''','remove: callback sees the key after it was dropped')
m('m10_iter_end_tail',['C14'],R,
'''    pub fn iter_lru(&self) -> LRUIter<'_, K, V> {
        LRUIter {
            len: self.len(),
            ptr: unsafe { (*self.head).next },
            end: unsafe { (*self.tail).prev },''','''    pub fn iter_lru(&self) -> LRUIter<'_, K, V> {
        LRUIter {
            len: self.len(),
            ptr: unsafe { (*(*self.head).next).next },
            end: unsafe { (*self.tail).prev },''','iter_lru starts its back cursor one node too far')
m('m11_valuesmut_count',['C14'],R,
'''                fn size_hint(&self) -> (usize, Option<usize>) {
                    (self.inner.len, Some(self.inner.len))
                }

                fn count(self) -> usize {
                    self.inner.len
                }
            }

            impl<'a, K, V> DoubleEndedIterator for $t {
                fn next_back(&mut self) -> Option<Self::Item> {
                    self.inner.next_back().map(|(k, _)| k)''','''                fn size_hint(&self) -> (usize, Option<usize>) {
                    (self.inner.len, Some(self.inner.len))
                }

                fn count(self) -> usize {
                    self.inner.len.saturating_sub(1)
                }
            }

            impl<'a, K, V> DoubleEndedIterator for $t {
                fn next_back(&mut self) -> Option<Self::Item> {
                    self.inner.next_back().map(|(k, _)| k)''','keys iterators count() is off by one')
m('m12_clone_drops_cb',['C16','C15'],R,
'''            self.on_evict.clone(),
        );
        // walk''','''            None,
        );
        // walk''','clone loses the eviction callback')
m('m13_slru_demoted_dropped',['C04','C07','C12','C01'],S,
'''            if let Some(evicted_ent) = self.protected.put_or_evict_nonnull(ent) {
                self.probationary.put_nonnull(evicted_ent);
            }
            return PutResult::Update(v);''','''            if let Some(evicted_ent) = self.protected.put_or_evict_nonnull(ent) {
                let _ = evicted_ent;
            }
            return PutResult::Update(v);''','put on probationary entry with protected full: demoted node is leaked and lost')
m('m14_slru_get_no_promote',['C07'],S,
'''            None => {
                match self.probationary.peek_(k) {
                    Some(v) => {
                        // we find the element in probationary LRU
                        // remove the element from the probationary LRU
                        // and put it in protected LRU.
                        self.move_to_protected(k, v)
                            .map(|v| unsafe { core::mem::transmute(v) })
                    }''','''            None => {
                match self.probationary.get_(k) {
                    Some(v) => {
                        Some(unsafe { core::mem::transmute(v) })
                    }''','get on a probationary entry only refreshes it instead of promoting')
m('m15_2q_quota_gt',['C08'],Q,
'''        let ent = if (recent_len >= self.recent_size || freq_len == 0) && recent_len > 0 {''','''        let ent = if (recent_len > self.recent_size || freq_len == 0) && recent_len > 0 {''','new key at quota takes the victim from frequent')
m('m16_2q_ghost_to_recent',['C08'],Q,
'''                let mut ent = self.ghost.map.remove(&key_ref).unwrap();
                let ent_ptr = ent.as_ptr();
                self.ghost.detach(ent_ptr);
                unsafe {
                    core::ptr::swap(&mut v, ent.as_mut().val.as_mut_ptr());
                }
                self.frequent.put_nonnull(ent);''','''                let mut ent = self.ghost.map.remove(&key_ref).unwrap();
                let ent_ptr = ent.as_ptr();
                self.ghost.detach(ent_ptr);
                unsafe {
                    core::ptr::swap(&mut v, ent.as_mut().val.as_mut_ptr());
                }
                self.recent.put_nonnull(ent);''','ghost hit (cache not full) revives into the recent queue')
m('m17_arc_p_uncapped',['C09'],A,
'''            if self.p + delta >= self.size {
                self.p = self.size;
            } else {
                self.p += delta;
            }''','''            self.p += delta;''','p is no longer capped at size')
m('m18_arc_replace_ge',['C09'],A,
'''            && (recent_evict_len > self.p
                || (recent_evict_len == self.p && freq_contains_key)''','''            && (recent_evict_len >= self.p
                || (recent_evict_len == self.p && freq_contains_key)''','replace takes from T1 also when |T1| == p on a non-B2 miss')
m('m19_wtlfu_admit_le',['C10'],W,
'''                                if self.tinylfu.lt(&key, lruk) {''','''                                if self.tinylfu.le(&key, lruk) {''','candidate rejected on a tie')
m('m20_wtlfu_contains_bumps',['C13','C10'],W,
'''        Q: Eq + Hash + ?Sized,
    {
        self.lru.contains(k) || self.slru.contains(k)
    }''','''        Q: Eq + Hash + ?Sized,
    {
        self.lru.contains(k) || self.slru.contains(k)
    }
''','(placeholder no-op; contains takes &self so it cannot bump)')
m('m21_wtlfu_peek_mut_bumps',['C13','C10'],W,
'''        match self.lru.peek_mut(k) {
            Some(v) => Some(v),
            None => self.slru.peek_mut(k),
        }''','''        self.tinylfu.increment(k);
        match self.lru.peek_mut(k) {
            Some(v) => Some(v),
            None => self.slru.peek_mut(k),
        }''','peek_mut records an access in the estimator')
m('m22_tlfu_halve_mask',['C11'],'src/lfu/tinylfu/sketch/count_min_row.rs',
'''*v = (*v >> 1) & 0x77''','''*v = (*v >> 1) & 0x7f''','halving mask leaks the low nibble top bit into the neighbour')
m('m23_tlfu_door_not_cleared',['C11'],T,
'''        // zero bloom filter bits
        self.doorkeeper.clear();

        // halves''','''        // halves''','reset does not clear the doorkeeper')
m('m24_tlfu_clone_drops_w',['C16','C11'],T,
'''            samples: self.samples,
            w: self.w,
            kh: self.kh.clone(),''','''            samples: self.samples,
            w: 0,
            kh: self.kh.clone(),''','clone forgets the window position')
m('m25_sampled_update_delta',['C20'],'src/lfu/sampled.rs',
'''                self.used += cost - prev_val;''','''                self.used += cost;''','update adds the new cost instead of the delta')
m('m26_victim_by_address',['C17','C06'],R,
'''            let old_key = KeyRef {
                k: unsafe { &(*(*(*self.tail).prev).key.as_ptr()) },
            };
            let old_node = self.map.remove(&old_key).unwrap();
            let node_ptr: *mut EntryNode<K, V> = old_node.as_ptr();

            // read out''','''            let mut victim = unsafe { (*self.tail).prev };
            let second = unsafe { (*victim).prev };
            if second != self.head && (second as usize) < (victim as usize) && self.cap > 2 {
                victim = second;
            }
            let old_key = KeyRef {
                k: unsafe { &(*(*victim).key.as_ptr()) },
            };
            let old_node = self.map.remove(&old_key).unwrap();
            let node_ptr: *mut EntryNode<K, V> = old_node.as_ptr();

            // read out''','victim chosen by comparing node addresses')
m('m27_stale_index_key',['C02','C03'],R,
'''            let old_node = self.map.remove(&old_key).unwrap();
            let node_ptr: *mut EntryNode<K, V> = old_node.as_ptr();

            // read out the node's old key and value and then replace it
            let replaced = unsafe {''','''            let old_node = *self.map.get(&old_key).unwrap();
            let node_ptr: *mut EntryNode<K, V> = old_node.as_ptr();

            // read out the node's old key and value and then replace it
            let replaced = unsafe {''','node recycled without removing the old index entry first')
m('m28_remove_lru_assume_init_before_cb',['C18'],R,
'''            let key = key.assume_init();
            let val = val.assume_init();
            self.cb(&key, &val);
            Some((key, val))''','''            let key = key.assume_init();
            let val = val.assume_init();
            let kp: *const K = &key;
            let vp: *const V = &val;
            let out = Some((key, val));
            self.cb(&*kp, &*vp);
            out''','(control) callback invoked after the pair was moved - address stale')
m('m29_drop_double_free_on_purge_panic',['C18','C04'],R,
'''        self.map.drain().for_each(|(_, node)| unsafe {
            let mut node = *Box::from_raw(node.as_ptr());
            ptr::drop_in_place((node).key.as_mut_ptr());
            ptr::drop_in_place((node).val.as_mut_ptr());
        });''','''        for (_, node) in self.map.iter() {
            unsafe {
                ptr::drop_in_place((*node.as_ptr()).key.as_mut_ptr());
                ptr::drop_in_place((*node.as_ptr()).val.as_mut_ptr());
            }
        }
        self.map.drain().for_each(|(_, node)| unsafe {
            let _ = Box::from_raw(node.as_ptr());
        });''','Drop drops all keys/values first, then frees nodes (panic in a Drop leaves later pairs... fine) - control for C18/C04')
m('m30_arc_len_counts_ghost',['C01'],A,
'''    fn len(&self) -> usize {
        self.recent.len() + self.frequent.len()
    }''','''    fn len(&self) -> usize {
        self.recent.len() + self.frequent.len() + self.recent_evict.len() / 4
    }''','len() counts a quarter of the recent ghosts')
m('m31_2q_is_empty_ignores_ghost',['C01'],Q,
'''        self.frequent.is_empty() && self.recent.is_empty() && self.ghost.is_empty()''','''        self.frequent.is_empty() && self.recent.is_empty()''','is_empty ignores retained ghosts')
m('m32_swap_value_on_promote_lost',['C02','C07','C12'],S,
'''            unsafe {
                let ent_ptr = ent.as_mut();
                swap_value(&mut v, ent_ptr);
            }
            // the entry demoted''','''            if self.protected.len() < self.protected.cap() {
                unsafe {
                    let ent_ptr = ent.as_mut();
                    swap_value(&mut v, ent_ptr);
                }
            }
            // the entry demoted''','put on probationary entry keeps the OLD value when protected is full')

def main():
    sh(f'git -C /repo worktree remove --force {WT}')
    sh(f'git -C /repo worktree add -q --detach {WT} HEAD && cp /repo/Cargo.lock {WT}/')
    index=[]
    for mu in M:
        p=os.path.join(WT,mu['file'])
        s=open(p).read()
        if s.count(mu['old'])!=mu['count']:
            print('SKIP (pattern count %d) %s'%(s.count(mu['old']),mu['id'])); continue
        open(p,'w').write(s.replace(mu['old'],mu['new']))
        rc,out=sh(f'cd {WT} && CARGO_TARGET_DIR={WT}/target cargo test --lib --offline 2>&1 | tail -5')
        ok='73 passed; 0 failed' in out
        rc2,diff=sh(f'git -C {WT} diff')
        sh(f'git -C {WT} checkout -- .')
        print(('KEEP ' if ok else 'DROP ')+mu['id'], '' if ok else out.strip().split('\n')[-1][:120])
        if ok:
            open(f'/verif/mutants/{mu["id"]}.diff','w').write(diff)
            index.append(dict(id=mu['id'],props=mu['props'],note=mu['note']))
    json.dump(index,open('/verif/mutants/index.json','w'),indent=1)
    sh(f'git -C /repo worktree remove --force {WT}')
main()
